package main

// Generators for Sqrt (C05), conversions (C14), Context (C19), raw access (C20), setters (C02).

import (
	"encoding/json"
	"fmt"
	"math"
	"math/big"
	"strconv"
	"strings"

	"github.com/db47h/decimal"
)

func (g *Gen) genSqrt(p *Prog) {
	prec := g.prec(true)
	mode := g.mode()
	// precisions at which the Newton iteration for 1/sqrt ends with the least slack (t.prec == prec+2)
	// and their neighbours; small integers there stress the final correction loops
	if g.chance(0.4) {
		prec = []uint{15, 15, 15, 30, 60, 120, 14, 16, 29, 31, 59, 61}[g.intn(12)]
		if g.chance(0.7) {
			v := big.NewInt(int64(2 + g.intn(100000)))
			if g.chance(0.3) {
				v = digitsToInt(g.digitsPattern(1 + g.intn(30)))
			}
			x := intToVal(v, int64(g.intn(5)-2), false, uint(g.intn(3)), g.mode())
			vals := []Val{g.receiver(prec, mode), x}
			vi := p.loadShape(vals, g.aliasShape(2, 0.05))
			p.Exec(fmt.Sprintf("sqrt %d %d", vi[0], vi[1]))
			return
		}
	}
	var x Val
	switch g.intn(10) {
	case 0:
		x = g.special()
	case 1, 2, 3: // perfect squares and their neighbours
		r := digitsToInt(g.digitsPattern(1 + g.intn(g.maxDig/2+1)))
		sq := new(big.Int).Mul(r, r)
		if g.chance(0.5) {
			sq.Add(sq, big.NewInt(int64(g.intn(3)-1)))
			if sq.Sign() <= 0 {
				sq.SetInt64(1)
			}
		}
		x = intToVal(sq, int64(g.intn(41)-20), false, uint(g.intn(5)), g.mode())
	case 4, 5: // the root is an exact tie at the receiver's precision: (prec digits followed by 5)^2, or a neighbour
		np := int(prec)
		if np == 0 || np > 200 {
			np = 1 + g.intn(20)
		}
		h := g.digitsPattern(np)
		r := digitsToInt(h + "5")
		sq := new(big.Int).Mul(r, r)
		if g.chance(0.4) {
			sq.Add(sq, big.NewInt(int64(g.intn(3)-1)))
		}
		// even or odd decimal exponent
		x = intToVal(sq, int64(2*(g.intn(21)-10)+g.intn(2)), false, uint(g.intn(3)), g.mode())
		if prec != 0 {
			prec = uint(np)
		}
	default:
		x = g.finite()
		x.Neg = g.chance(0.05)
	}
	if x.Form == 1 && g.chance(0.1) {
		x.Exp = g.exp()
	}
	vals := []Val{g.receiver(prec, mode), x}
	vi := p.loadShape(vals, g.aliasShape(2, 0.15))
	p.Exec(fmt.Sprintf("sqrt %d %d", vi[0], vi[1]))
}

var int64Edges = []int64{0, 1, -1, 9, 10, 99, math.MaxInt64, math.MinInt64, math.MaxInt64 - 1, math.MinInt64 + 1,
	1e18, -1e18, 999999999999999999, 1000000000000000001, 5e17, 123456789012345678}

var uint64Edges = []uint64{0, 1, 9, 10, math.MaxUint64, math.MaxUint64 - 1, 1 << 63, 1<<63 - 1, 1<<63 + 1, 1e19, 1e19 - 1, 1e19 + 1, 1e18}

func (g *Gen) int64v() int64 {
	switch g.intn(4) {
	case 0:
		return int64Edges[g.intn(len(int64Edges))]
	case 1:
		return int64(g.intn(2001) - 1000)
	default:
		v := int64(g.r.Uint64() >> uint(g.intn(64)))
		if g.intn(2) == 0 {
			v = -v
		}
		return v
	}
}

func (g *Gen) uint64v() uint64 {
	switch g.intn(4) {
	case 0, 1:
		return uint64Edges[g.intn(len(uint64Edges))]
	default:
		return g.r.Uint64() >> uint(g.intn(64))
	}
}

// bigIntWords returns a random positive big integer as base-1e19 words text.
func (g *Gen) bigIntWords(maxDigits int) string {
	d := g.digitsPattern(1 + g.intn(maxDigits))
	if g.chance(0.3) {
		d += strings.Repeat("0", g.intn(60))
	}
	return bigToWords(digitsToInt(d))
}

// genSetters: integer/rational setters and NewDecimal (C02, C09, C14).
func (g *Gen) genSetters(p *Prog) {
	prec := g.prec(true)
	z := p.Load(g.receiver(prec, g.mode()))
	switch g.intn(7) {
	case 0:
		p.Exec(fmt.Sprintf("setint64 %d %d", z, g.int64v()))
	case 1:
		p.Exec(fmt.Sprintf("setuint64 %d %d", z, g.uint64v()))
	case 2:
		e := int64(g.intn(61) - 30)
		switch g.intn(12) {
		case 0:
			e = int64(decimal.MaxExp) - int64(g.intn(25))
		case 1:
			e = int64(decimal.MinExp) - int64(g.intn(25)) + 10
		case 2:
			e = int64(decimal.MaxExp) + int64(g.intn(5))
		case 3:
			e = math.MaxInt64 - int64(g.intn(30))
		case 4:
			e = math.MinInt64 + int64(g.intn(30))
		}
		p.Exec(fmt.Sprintf("newdec %d %d %d", z, g.int64v(), e))
	case 3, 4:
		sign := g.intn(2)
		w := g.bigIntWords(g.maxDig)
		if g.chance(0.05) {
			w = "-"
		}
		if g.chance(0.3) {
			// a reused receiver that held a longer value, then an integer whose bit length over-estimates
			// its decimal word count (2^k, 2^k-1, 10^j-1, 10^j): every word of the new mantissa must be written
			long := g.finite()
			long.Digits = trimZeros(g.digitsPattern(40 + g.intn(80)))
			long.Prec = uint(len(long.Digits))
			z = p.Load(long)
			if g.chance(0.5) {
				p.setprec(z, g.prec(true))
			}
			v := new(big.Int)
			switch g.intn(4) {
			case 0:
				v.Lsh(big.NewInt(1), uint(1+g.intn(260)))
			case 1:
				v.Lsh(big.NewInt(1), uint(1+g.intn(260)))
				v.Sub(v, big.NewInt(1))
			case 2:
				v.Exp(big.NewInt(10), big.NewInt(int64(19*(1+g.intn(4)))), nil)
				v.Sub(v, big.NewInt(int64(1+g.intn(3))))
			default:
				v.Lsh(big.NewInt(1), uint(63*(1+g.intn(4))))
				v.Add(v, big.NewInt(int64(g.intn(1000))))
			}
			w = bigToWords(v)
		}
		p.Exec(fmt.Sprintf("setint %d %d %s", z, sign, w))
		if g.chance(0.5) {
			p.Exec(fmt.Sprintf("int %d", z))
			p.Exec(fmt.Sprintf("minprec %d", z))
		}
	default:
		sign := g.intn(2)
		num := g.bigIntWords(g.maxDig / 2)
		den := g.bigIntWords(g.maxDig / 2)
		switch g.intn(5) {
		case 0:
			den = "1"
		case 1:
			den = bigToWords(new(big.Int).Lsh(big.NewInt(1), uint(1+g.intn(40))))
		case 2:
			num = "-"
		}
		p.Exec(fmt.Sprintf("setrat %d %d %s %s", z, sign, num, den))
	}
}

// genConv: Int, Int64, Uint64, Rat, IsInt, MinPrec, Sign (C14).
func (g *Gen) genConv(p *Prog) {
	x := g.any()
	if x.Form == 1 {
		switch g.intn(6) {
		case 0: // around 2^63 / 2^64 / 10^19
			edges := []string{"9223372036854775807", "9223372036854775808", "9223372036854775809", "18446744073709551615",
				"18446744073709551616", "18446744073709551617", "10000000000000000000", "9999999999999999999", "99999999999999999999", "100000000000000000000"}
			v := digitsToInt(edges[g.intn(len(edges))])
			if g.chance(0.4) { // add a fraction
				v.Mul(v, big.NewInt(1000))
				v.Add(v, big.NewInt(int64(g.intn(1000))))
				x = intToVal(v, -3, g.intn(2) == 0, uint(g.intn(3)), g.mode())
			} else {
				x = intToVal(v, 0, g.intn(2) == 0, uint(g.intn(3)), g.mode())
			}
		case 3: // sizes at which the binary word-count estimate of decToNat has no slack:
			// floor(digits*log2(10)) is a multiple of 64; values at the top of that decade
			var cands []int
			for d := 20; d <= 3000; d++ {
				if int(float64(d)*3.321928094887362)%64 == 0 {
					cands = append(cands, d)
				}
			}
			d := cands[g.intn(len(cands))]
			if g.chance(0.7) {
				d = cands[g.intn(6)]
			}
			digs := []byte(g.digitsPattern(d))
			for i := 0; i < 3 && i < len(digs); i++ {
				digs[i] = byte('7' + g.intn(3))
			}
			v := digitsToInt(string(digs))
			x = intToVal(v, int64(g.intn(3)-1)*int64(g.intn(4)), g.intn(2) == 0, uint(g.intn(3)), g.mode())
		case 1: // integer with trailing zeros: MinPrec = exp cases
			v := digitsToInt(g.digitsPattern(1 + g.intn(25)))
			x = intToVal(v, int64(g.intn(8)), g.intn(2) == 0, uint(g.intn(30)), g.mode())
		case 4: // integers whose digits exactly fill 2..5 words (no shift needed on conversion)
			d := g.digitsPattern(19 * (2 + g.intn(4)))
			if d[0] == '0' {
				d = "7" + d[1:]
			}
			x = Val{Form: 1, Neg: g.intn(2) == 0, Digits: d, Exp: int64(len(d)), Prec: uint(len(d)), Mode: g.mode()}
			if d[len(d)-1] == '0' {
				x.Digits = d[:len(d)-1] + "3"
			}
		case 2: // digits exactly up to the point, or one beyond
			d := g.digitsPattern(1 + g.intn(30))
			x = Val{Form: 1, Neg: g.intn(2) == 0, Digits: trimZeros(d), Exp: int64(len(d) - g.intn(3)), Mode: g.mode()}
			x.Prec = uint(len(x.Digits)) + uint(g.intn(3))
		default:
			if x.Exp > 400 || x.Exp < -400 {
				x.Exp = int64(g.intn(61) - 30)
			}
		}
	}
	v := p.Load(x)
	ops := []string{"int64", "uint64", "int", "rat", "isint", "minprec", "sign", "int", "text"}
	for _, op := range ops {
		if g.chance(0.6) {
			if op == "text" {
				p.Exec(fmt.Sprintf("text %d e -1", v))
			} else if op == "rat" {
				p.Exec(fmt.Sprintf("rat %d %d", v, g.intn(4)))
			} else {
				p.Exec(fmt.Sprintf("%s %d", op, v))
			}
		}
	}
}

// genRaw: SetBitsExp / BitsExp / MantExp / SetMantExp (C20).
func (g *Gen) genRaw(p *Prog) {
	switch g.intn(3) {
	case 0: // SetBitsExp with arbitrary slices
		prec := g.prec(true)
		z := p.Load(g.receiver(prec, g.mode()))
		n := g.intn(5)
		if g.chance(0.1) {
			n = g.intn(g.maxDig/19 + 2)
		}
		words := make([]string, n)
		for i := range words {
			switch g.intn(6) {
			case 0:
				words[i] = "0"
			case 1:
				words[i] = "9999999999999999999"
			case 2:
				words[i] = fmt.Sprint(uint64(g.intn(1000)))
			case 3:
				words[i] = "1000000000000000000"
			default:
				words[i] = fmt.Sprint(g.r.Uint64() % 10000000000000000000)
			}
		}
		if n >= 2 && g.chance(0.3) {
			// a short top word (the normalisation shifts by 19-d digits) above words with high leading digits
			// ending in runs of nines: the worst cases of the division-by-10^k tables
			d := 1 + g.intn(18)
			top := uint64(1)
			for k := 1; k < d; k++ {
				top *= 10
			}
			top += g.r.Uint64() % (9 * top)
			words[n-1] = fmt.Sprint(top)
			for i := 0; i < n-1; i++ {
				j := uint64(1)
				for k := g.intn(19); k > 0; k-- {
					j *= 10
				}
				w := 7000000000000000000 + g.r.Uint64()%3000000000000000000
				w = w - w%j + (j - 1)
				words[i] = fmt.Sprint(w)
			}
		}
		for i := n - 1; i >= 0 && g.chance(0.4); i-- {
			words[i] = "0" // leading zero words
		}
		ws := "-"
		if n > 0 {
			ws = strings.Join(words, ",")
		}
		e := int64(g.intn(81) - 40)
		switch g.intn(14) {
		case 0:
			e = int64(decimal.MaxExp) + int64(g.intn(60)) - 30
		case 1:
			e = int64(decimal.MinExp) + int64(g.intn(60)) - 30
		case 2:
			e = math.MaxInt64 - int64(g.intn(100))
		case 3:
			e = math.MinInt64 + int64(g.intn(100))
		}
		p.Exec(fmt.Sprintf("setbitsexp %d %s %d", z, ws, e))
	case 1: // MantExp then SetMantExp
		if g.chance(0.25) {
			// BitsExp must denote the magnitude whatever the history of the variable: zeros made from finite values
			v := g.finite()
			xi := p.Load(v)
			p.Exec(fmt.Sprintf("bitsexp %d", xi))
			switch g.intn(5) {
			case 0:
				p.Exec(fmt.Sprintf("setuint64 %d 0", xi))
			case 1:
				p.Exec(fmt.Sprintf("sub %d %d %d", xi, xi, xi))
			case 2:
				p.setprec(xi, 0)
			case 3:
				p.Exec(fmt.Sprintf("setmantexp %d %d %d", xi, xi, int64(decimal.MinExp)-int64(v.Exp)-int64(1+g.intn(5))))
			default:
				p.Exec(fmt.Sprintf("setbitsexp %d %s %d", xi, "0,0", g.intn(10)))
			}
			p.Exec(fmt.Sprintf("bitsexp %d", xi))
			return
		}
		x := p.Load(g.any())
		m := p.Load(g.receiver(g.prec(true), g.mode()))
		if g.chance(0.15) {
			m = x
		}
		p.Exec(fmt.Sprintf("mantexp %d %d", x, m))
		if g.chance(0.3) {
			p.Exec(fmt.Sprintf("mantexp %d nil", x))
		}
		z := p.Load(g.receiver(g.prec(true), g.mode()))
		if g.chance(0.15) {
			z = m
		}
		// rebuild with the exponent of x (read through the API)
		e := p.vars[x].MantExp(nil)
		if m != x {
			p.Exec(fmt.Sprintf("setmantexp %d %d %d", z, m, e))
			if z != x {
				p.Exec(fmt.Sprintf("cmp %d %d", z, x))
			}
		}
	default: // SetMantExp with exponents around the range limits
		m := p.Load(g.any())
		z := p.Load(g.receiver(g.prec(true), g.mode()))
		if g.chance(0.15) {
			z = m
		}
		var e int64
		me := int64(p.vars[m].MantExp(nil))
		switch g.intn(8) {
		case 0:
			e = int64(decimal.MaxExp) - me + int64(g.intn(5)) - 2
		case 1:
			e = int64(decimal.MinExp) - me + int64(g.intn(5)) - 2
		case 2:
			e = math.MaxInt64 - int64(g.intn(10))
		case 3:
			e = math.MinInt64 + int64(g.intn(10))
		default:
			e = int64(g.intn(2001) - 1000)
		}
		p.Exec(fmt.Sprintf("setmantexp %d %d %d", z, m, e))
	}
}

// genContext: sequences of context operations mixing valid and NaN-producing steps (C19).
func (g *Gen) genContext(p *Prog, steps int) {
	p.Exec(fmt.Sprintf("cnew %d %d", g.prec(true), int(g.mode())))
	nv := 4 + g.intn(3)
	for i := 0; i < nv; i++ {
		var v Val
		switch g.intn(6) {
		case 0:
			v = Val{Form: 0, Neg: g.intn(2) == 0, Prec: g.prec(true), Mode: g.mode()}
		case 1:
			v = Val{Form: 2, Neg: g.intn(2) == 0, Prec: g.prec(true), Mode: g.mode()}
		default:
			v = g.finite()
			if v.Exp > 300 || v.Exp < -300 {
				v.Exp = int64(g.intn(41) - 20)
			}
		}
		p.Load(v)
	}
	pick := func() int { return g.intn(nv) }
	// receivers distinct from operands most of the time
	recv := func(ops ...int) int {
		if g.chance(0.12) {
			return pick()
		}
		for {
			z := pick()
			ok := true
			for _, o := range ops {
				if o == z {
					ok = false
				}
			}
			if ok {
				return z
			}
		}
	}
	for s := 0; s < steps; s++ {
		switch k := g.intn(24); {
		case g.chance(0.06):
			// factory with a possible NaN source: must latch like the operators (first error wins), never panic
			b := g.f64bits()
			if g.chance(0.35) {
				b = 0x7ff8000000000000 | uint64(g.intn(2))<<63 | uint64(g.intn(1000))
			}
			p.Exec(fmt.Sprintf("cnewf64 %d %x", recv(), b))
		case k < 4:
			x, y := pick(), pick()
			p.Exec(fmt.Sprintf("cadd %d %d %d", recv(x, y), x, y))
		case k < 8:
			x, y := pick(), pick()
			p.Exec(fmt.Sprintf("csub %d %d %d", recv(x, y), x, y))
		case k < 11:
			x, y := pick(), pick()
			p.Exec(fmt.Sprintf("cmul %d %d %d", recv(x, y), x, y))
		case k < 14:
			x, y := pick(), pick()
			p.Exec(fmt.Sprintf("cquo %d %d %d", recv(x, y), x, y))
		case k < 15:
			x, y, u := pick(), pick(), pick()
			p.Exec(fmt.Sprintf("cfma %d %d %d %d", recv(x, y, u), x, y, u))
		case k < 16:
			x := pick()
			p.Exec(fmt.Sprintf("csqrt %d %d", recv(x), x))
		case k < 17:
			x := pick()
			p.Exec(fmt.Sprintf("cneg %d %d", recv(x), x))
		case k < 18:
			x := pick()
			p.Exec(fmt.Sprintf("cabs %d %d", recv(x), x))
		case k < 19:
			x := pick()
			p.Exec(fmt.Sprintf("cset %d %d", recv(x), x))
		case k < 21:
			p.Exec("cerr")
			if g.chance(0.3) {
				p.Exec("cerr")
			}
		case k < 22:
			p.Exec(fmt.Sprintf("csetprec %d", g.prec(true)))
		case k < 23:
			p.Exec(fmt.Sprintf("csetmode %d", int(g.mode())))
		default:
			y := pick()
			p.Exec(fmt.Sprintf("cnil %d %d %s", recv(y), y, []string{"add", "sub", "mul", "quo", "fma", "sqrt"}[g.intn(6)]))
		}
	}
	p.Exec("cerr")
	p.Exec("cerr")
}

// genGob: GobEncode/GobDecode round trips and hostile payloads (C17).
func (g *Gen) genGob(p *Prog) {
	if g.chance(0.04) {
		// precisions at the top of the uint32 range (only encoded and decoded: nothing is computed at that precision)
		v := g.finite()
		v.Prec = []uint{decimal.MaxPrec, decimal.MaxPrec - 17, decimal.MaxPrec - 18, decimal.MaxPrec - 1, 4000000000}[g.intn(5)]
		xi := p.Load(v)
		p.Exec(fmt.Sprintf("gobenc %d", xi))
		z := p.Load(Val{Form: 0, Prec: 0})
		p.Exec(fmt.Sprintf("gobrt %d %d", z, xi))
		return
	}
	x := g.any()
	if g.chance(0.05) {
		// an infinity (or zero) produced by overflow / underflow keeps a non-Exact accuracy: it must be transmitted
		v := g.finite()
		if g.chance(0.5) {
			v.Exp = int64(decimal.MaxExp) - int64(g.intn(3))
		} else {
			v.Exp = int64(decimal.MinExp) + int64(g.intn(3))
		}
		xi := p.Load(v)
		p.Exec(fmt.Sprintf("mul %d %d %d", xi, xi, xi))
		p.Exec(fmt.Sprintf("gobenc %d", xi))
		z := p.Load(Val{Form: 0, Prec: 0})
		p.Exec(fmt.Sprintf("gobrt %d %d", z, xi))
		return
	}
	xi := p.Load(x)
	// give x a non-Exact accuracy sometimes, by rounding it
	if x.Form == 1 && len(x.Digits) > 1 && g.chance(0.4) {
		p.Exec(fmt.Sprintf("setprec %d %d", xi, 1+g.intn(len(x.Digits))))
	}
	switch g.intn(4) {
	case 0:
		p.Exec(fmt.Sprintf("gobenc %d", xi))
		z := p.Load(Val{Form: 0, Prec: 0})
		p.Exec(fmt.Sprintf("gobrt %d %d", z, xi))
	case 1:
		z := p.Load(g.receiver(g.prec(true), g.mode()))
		if g.chance(0.1) {
			z = xi
		}
		p.Exec(fmt.Sprintf("gobrt %d %d", z, xi))
	default:
		enc, err := p.vars[xi].GobEncode()
		if err != nil {
			return
		}
		b := append([]byte(nil), enc...)
		switch g.intn(9) {
		case 0: // truncate
			b = b[:g.intn(len(b)+1)]
		case 1: // flip a byte
			if len(b) > 0 {
				b[g.intn(len(b))] ^= byte(1 << uint(g.intn(8)))
			}
		case 2: // random byte
			if len(b) > 0 {
				b[g.intn(len(b))] = byte(g.intn(256))
			}
		case 3: // extend
			for k := g.intn(20); k >= 0; k-- {
				b = append(b, byte(g.intn(256)))
			}
		case 4: // attribute byte
			if len(b) > 1 {
				b[1] = byte(g.intn(256))
			}
		case 5: // a word >= 10^19
			if len(b) >= 18 {
				k := 10 + 8*g.intn((len(b)-10)/8)
				for j := 0; j < 8; j++ {
					b[k+j] = 0xff
				}
			}
		case 6: // zero the top word (unnormalised)
			if len(b) >= 18 {
				for j := 10; j < 18; j++ {
					b[j] = 0
				}
			}
		case 7: // precision smaller than the digits sent
			if len(b) >= 6 {
				b[2], b[3], b[4], b[5] = 0, 0, 0, byte(g.intn(4))
			}
		case 8: // completely random
			b = make([]byte, g.intn(40))
			for j := range b {
				b[j] = byte(g.intn(256))
			}
			if len(b) > 0 && g.chance(0.7) {
				b[0] = 1
			}
		}
		z := p.Load(g.receiver(g.prec(true), g.mode()))
		p.Exec(fmt.Sprintf("gobdec %d %x", z, b))
	}
}

var textFormats = []byte("eEfgGpb")

// valForText: values whose printing is interesting: dyadic (strconv oracle), low zero words,
// rounding at word boundaries, tiny/huge exponents for exponent formats.
func (g *Gen) valForText(forF bool) Val {
	x := g.any()
	switch g.intn(8) {
	case 0, 1, 2: // dyadic: k / 2^j
		k := int64(g.r.Uint64() >> uint(11+g.intn(53)))
		if k == 0 {
			k = 1
		}
		j := g.intn(60)
		v := new(big.Int).Mul(big.NewInt(k), new(big.Int).Exp(big.NewInt(5), big.NewInt(int64(j)), nil))
		x = intToVal(v, -int64(j), g.intn(2) == 0, uint(g.intn(4)), decimal.ToNearestEven)
		if g.chance(0.3) {
			x.Mode = g.mode()
		}
	case 3: // small integers and halves
		x = intToVal(big.NewInt(int64(1+g.intn(2000))), -int64(g.intn(4)), g.intn(2) == 0, uint(g.intn(3)), g.mode())
	case 4: // mantissa with low zero words
		d := g.digitsPattern(1+g.intn(20)) + strings.Repeat("0", 19+g.intn(30))
		x = Val{Form: 1, Neg: g.intn(2) == 0, Digits: trimZeros(d), Exp: int64(g.intn(81) - 40), Mode: g.mode()}
		x.Prec = uint(len(d)) + uint(g.intn(3))
	}
	if x.Form == 1 && forF && (x.Exp > 400 || x.Exp < -400) {
		x.Exp = int64(g.intn(61) - 30)
	}
	if forF && g.chance(0.06) {
		// integers of 20 digits on both sides of 2^64 (and of 19/39 digits at the word boundary)
		v := new(big.Int)
		switch g.intn(4) {
		case 0:
			v.SetUint64(math.MaxUint64)
			v.Add(v, big.NewInt(int64(g.intn(2000)-1000)))
		case 1:
			v.SetString("99999999999999999999", 10)
			v.Sub(v, big.NewInt(int64(g.intn(1000))))
		case 2:
			v.SetString("18446744073709551616", 10)
			v.Mul(v, big.NewInt(int64(1+g.intn(5))))
			v.Add(v, big.NewInt(int64(g.intn(100))))
		default:
			v.SetString("10000000000000000000", 10)
			v.Add(v, big.NewInt(int64(g.intn(1000))))
		}
		x = intToVal(v, 0, g.intn(2) == 0, uint(g.intn(3)), g.mode())
		return x
	}
	if x.Form == 1 && forF && g.chance(0.2) {
		// small numbers whose %f text has whole words of leading zeros: "0." + zeros + digits with a total digit
		// count at (or next to) a multiple of the word size - the digit scanner stores complete groups separately
		n := 1 + g.intn(40)
		d := trimZeros(g.digitsPattern(n))
		if d == "" || d[0] == '0' {
			d = "5"
		}
		total := 19*(2+g.intn(3)) + g.intn(3) - 1
		e := int64(len(d)) + 1 - int64(total) // 1 + (-exp) + digits = total
		if g.chance(0.5) {
			e-- // base 0: the leading '0' is consumed by the prefix detection
		}
		x = Val{Form: 1, Neg: g.intn(2) == 0, Digits: d, Exp: e, Prec: uint(len(d)) + uint(g.intn(3)), Mode: g.mode()}
	}
	return x
}

// genText: explicit-precision formatting and fmt verbs (C13).
func (g *Gen) genText(p *Prog) {
	f := textFormats[g.intn(5)] // e E f g G
	x := g.valForText(f == 'f')
	xi := p.Load(x)
	prec := g.intn(25)
	if g.chance(0.2) {
		prec = g.intn(3)
	}
	if x.Form == 1 && f == 'f' && g.chance(0.3) {
		// rounding position at / above the leading digit
		prec = int(-x.Exp) - g.intn(3)
		if prec < 0 {
			prec = 0
		}
		if prec > 400 {
			prec = 0
		}
	}
	if g.chance(0.12) {
		// |x| is exactly half (or 1.5, 2.5 …) of the quantum 10^-prec: ties at and above the leading digit
		d := []string{"5", "5", "15", "25", "35", "45", "5000000000000000000001", "4999999999999999999999", "05", "95"}[g.intn(10)]
		k := g.intn(30)
		x := Val{Form: 1, Neg: g.intn(2) == 0, Digits: trimZeros(strings.TrimLeft(d, "0")), Exp: int64(len(strings.TrimLeft(d, "0"))-len(d)) + int64(len(d)) - 1 - int64(k), Mode: g.mode()}
		if g.chance(0.6) {
			x.Mode = decimal.ToNearestEven
		}
		x.Prec = uint(len(x.Digits)) + uint(g.intn(3))
		xi = p.Load(x)
		// value = d × 10^(-k-1) (as an integer d): %.{k}f rounds at the digit before d's last digit
		prec = k
		f = 'f'
	}
	p.Exec(fmt.Sprintf("text %d %c %d", xi, f, prec))
	if g.chance(0.5) {
		// the same through fmt with flags and width
		verbs := []byte("eEfFgGv")
		verb := verbs[g.intn(len(verbs))]
		if (x.Exp > 400 || x.Exp < -400) && (verb == 'f' || verb == 'F') {
			verb = 'e'
		}
		format := "%"
		for _, fl := range []byte("+ 0-") {
			if g.chance(0.25) {
				format += string(fl)
			}
		}
		if g.chance(0.6) {
			format += fmt.Sprint(g.intn(30))
		}
		if g.chance(0.8) {
			format += "." + fmt.Sprint(g.intn(20))
		}
		format += string(verb)
		p.Exec(fmt.Sprintf("sprintf %d %x", xi, format))
	}
	if g.chance(0.1) {
		p.Exec(fmt.Sprintf("text %d %c %d", xi, "pb"[g.intn(2)], 0))
	}
	if g.chance(0.08) {
		// infinities under every combination of sign flags (fmt: '+' wins over ' '; no zero padding of Inf)
		ii := p.Load(Val{Form: 2, Neg: g.intn(2) == 0, Prec: uint(g.intn(40)), Mode: g.mode()})
		format := "%"
		for _, fl := range []byte("+ 0-") {
			if g.chance(0.6) {
				format += string(fl)
			}
		}
		if g.chance(0.6) {
			format += fmt.Sprint(g.intn(12))
		}
		if g.chance(0.5) {
			format += "." + fmt.Sprint(g.intn(5))
		}
		format += string("eEfFgG"[g.intn(6)])
		p.Exec(fmt.Sprintf("sprintf %d %x", ii, format))
	}
}

// genRoundTrip: Text/MarshalText with precision -1, parsed back (C11).
func (g *Gen) genRoundTrip(p *Prog) {
	if g.chance(0.08) {
		// zeros and infinities of both signs, with and without history, through every text interface
		var xi int
		neg := g.intn(2)
		switch g.intn(4) {
		case 0:
			xi = p.Load(Val{Form: 0, Neg: neg == 1, Prec: g.prec(true), Mode: g.mode()})
		case 1:
			xi = p.Load(Val{Form: 2, Neg: neg == 1, Prec: g.prec(true), Mode: g.mode()})
		case 2: // -0 = (-x) * 0
			v := g.finite()
			v.Neg = neg == 1
			xi = p.Load(v)
			z := p.Load(Val{Form: 0, Prec: 5})
			p.Exec(fmt.Sprintf("mul %d %d %d", xi, xi, z))
		default: // x - x under ToNegativeInf is -0
			v := g.finite()
			v.Mode = decimal.ToNegativeInf
			xi = p.Load(v)
			p.Exec(fmt.Sprintf("sub %d %d %d", xi, xi, xi))
		}
		p.Exec(fmt.Sprintf("marshaltext %d", xi))
		p.Exec(fmt.Sprintf("marshaljson %d", xi))
		b, _ := p.vars[xi].MarshalText()
		z := p.Load(Val{Form: 0, Prec: uint(g.intn(5)), Mode: g.mode()})
		p.Exec(fmt.Sprintf("unmarshaltext %d %x", z, string(b)))
		p.Exec(fmt.Sprintf("sign %d", z))
		p.Exec(fmt.Sprintf("text %d g -1", z))
		j, _ := json.Marshal(p.vars[xi])
		z2 := p.Load(Val{Form: 0, Prec: uint(g.intn(5)), Mode: g.mode()})
		p.Exec(fmt.Sprintf("unmarshaljson %d %x", z2, string(j)))
		p.Exec(fmt.Sprintf("text %d g -1", z2))
		return
	}
	f := textFormats[g.intn(len(textFormats))]
	x := g.valForText(f == 'f')
	if g.chance(0.1) && f != 'f' && x.Form == 1 {
		x.Exp = g.exp()
	}
	xi := p.Load(x)
	p.Exec(fmt.Sprintf("text %d %c -1", xi, f))
	s := p.vars[xi].Text(f, -1)
	if g.chance(0.2) {
		b, _ := p.vars[xi].MarshalText()
		s = string(b)
	}
	// receiver precision at least MinPrec
	mp := p.vars[xi].MinPrec()
	zp := mp + uint(g.intn(3))
	if g.chance(0.3) {
		zp = mp + uint(g.intn(40))
	}
	if zp == 0 {
		zp = uint(g.intn(5))
	}
	z := p.Load(Val{Form: 0, Prec: zp, Mode: g.mode()})
	base := 10
	if g.chance(0.3) {
		base = 0
	}
	p.Exec(fmt.Sprintf("parse %d %d %x", z, base, s))
	p.Exec(fmt.Sprintf("cmp %d %d", z, xi))
	p.Exec(fmt.Sprintf("sign %d", z))
	if g.chance(0.15) {
		// returned encodings stay valid while other values (of similar length) are converted
		o := p.Load(g.valForText(false))
		p.Exec(fmt.Sprintf("marshalhold %d %d", xi, o))
	}
}

var litAlphabet = []byte("0123456789abcdefABCDEFxXoOpP_.+-eEinfIN ")

// genParse: structured literals and a malformed stream (C12).
func (g *Gen) genParse(p *Prog) {
	prec := g.prec(true)
	z := p.loadMaybeInexact(g.receiver(prec, g.mode()), true)
	if g.chance(0.08) {
		// fmt.Sscan (the Scan method): leading space, longest valid prefix, what may follow a number - including
		// multi-byte runes whose low byte looks like a digit (U+0130..U+0139 end in 0x30..0x39)
		num := []string{"1", "12.5", "-3e2", "+0.25", "7_7", "0x1F", "0b101", "1e", "", "-", "9999999999999999999999", "0.000001"}[g.intn(12)]
		if g.chance(0.4) {
			num = g.digitsPattern(1 + g.intn(30))
		}
		tail := []string{"", " 2", "x", ",", "\n5", "\u0133", "\u0135x", "\u0139", "\u00e9", "e", "_", "\u20ac", "\xff", "\u0131\u0132"}[g.intn(14)]
		if t, err := strconv.Unquote(`"` + tail + `"`); err == nil {
			tail = t
		}
		lead := []string{"", " ", "  \t", "\n"}[g.intn(4)]
		if t, err := strconv.Unquote(`"` + lead + `"`); err == nil {
			lead = t
		}
		p.Exec(fmt.Sprintf("sscan %d %x", z, lead+num+tail))
		return
	}
	if g.chance(0.06) {
		// zero literals of every spelling into a receiver that may carry an inexact accuracy from earlier use
		zs := []string{"0", "-0", "+0", "0e10", "0.000", "-0.0e-5", "0x0p3", "0_0.0_0", "0b0", "00", "0E0"}[g.intn(11)]
		p.Exec(fmt.Sprintf("parse %d %d %x", z, []int{0, 0, 10}[g.intn(3)], zs))
		return
	}
	if g.chance(0.10) {
		// binary-exponent literals whose value is representable (or a hair away from representable) although the
		// written mantissa is much longer than the receiver: hex(M*2^k) p-k = M, hex(M*5^k) p+k = M*10^k, and +-1 in
		// the written mantissa. With ndigits(2^k) <= prec+19 the power of two is exact and so must the result be.
		zp := 1 + g.intn(60)
		zr := p.loadMaybeInexact(Val{Form: 0, Prec: uint(zp), Mode: g.mode()}, true)
		md := 1 + g.intn(zp)
		if g.chance(0.2) {
			md = zp + 1 + g.intn(25) // not representable: within one unit, truthful accuracy
		}
		m, _ := new(big.Int).SetString(strings.TrimLeft(g.digitsPattern(md), "0")+"7", 10)
		var k int
		switch g.intn(3) {
		case 0:
			k = 1 + g.intn(66)
		case 1:
			k = (zp + 19) * 1000 / 302 // about the largest k with an exact power
			k -= g.intn(12)
		default:
			k = 60 + g.intn(400)
		}
		w := new(big.Int)
		sign := "-"
		if g.chance(0.5) {
			w.Mul(m, new(big.Int).Lsh(big.NewInt(1), uint(k)))
		} else {
			w.Mul(m, new(big.Int).Exp(big.NewInt(5), big.NewInt(int64(k)), nil))
			sign = "+"
		}
		if g.chance(0.25) {
			w.Add(w, big.NewInt(int64(g.intn(3)-1)))
		}
		var lit string
		base := 0
		switch g.intn(4) {
		case 0:
			lit = "0x" + w.Text(16)
		case 1:
			lit = "0b" + w.Text(2)
		case 2:
			lit = "0o" + w.Text(8)
		default:
			lit = w.Text(10)
			base = []int{0, 10}[g.intn(2)]
		}
		lit += fmt.Sprintf("p%s%d", sign, k)
		if g.chance(0.25) {
			// no binary exponent at all (or p+0): a plain integer in base 2, 8 or 16 whose WRITTEN digit count is at
			// or below the precision while its decimal expansion is longer - it must still be rounded
			nd := zp - g.intn(3)
			if nd < 1 {
				nd = 1
			}
			bb := []int{16, 16, 8, 2}[g.intn(4)]
			set := map[int]string{2: "01", 8: "01234567", 16: "0123456789abcdefABCDEF"}[bb]
			b := make([]byte, nd)
			for i := range b {
				b[i] = set[g.intn(len(set))]
			}
			if b[0] == '0' {
				b[0] = '1'
			}
			if g.chance(0.3) {
				for i := range b {
					b[i] = set[len(set)-1] // all f / 7 / 1
				}
			}
			lit = map[int]string{2: "0b", 8: "0o", 16: "0x"}[bb] + string(b)
			base = 0
			if g.chance(0.3) {
				lit = string(b)
				base = bb
			}
			if g.chance(0.2) {
				lit += "p+0"
			}
		}
		if g.chance(0.3) {
			lit = "-" + lit
		}
		p.Exec(fmt.Sprintf("parse %d %d %x", zr, base, lit))
		return
	}
	var s string
	base := []int{0, 10, 10, 0, 2, 8, 16}[g.intn(7)]
	digs := func(n int, set string) string {
		b := make([]byte, n)
		for i := range b {
			b[i] = set[g.intn(len(set))]
		}
		return string(b)
	}
	switch g.intn(10) {
	case 0, 1, 2, 3: // well-formed base-10 literal
		if base != 0 {
			base = 10
		}
		n := 1 + g.intn(60)
		if g.chance(0.1) {
			n = 1 + g.intn(g.maxDig*3)
		}
		m := digs(n, "0123456789")
		if g.chance(0.15) {
			// whole groups of leading zeros and total digit counts at multiples of the word size
			// (the digit scanner stores complete 19-digit groups on a separate path)
			total := 19 * (1 + g.intn(4))
			lead := []int{19, 20, 38, 18, 1 + g.intn(40)}[g.intn(5)]
			if base == 0 && g.chance(0.5) {
				total++ // base 0: prefix detection consumes the first '0'
			}
			if lead > total {
				lead = total
			}
			m = strings.Repeat("0", lead) + digs(total-lead, "0123456789")
			if g.chance(0.3) {
				m = strings.Repeat("0", total)
			}
		}
		if g.chance(0.5) {
			k := g.intn(len(m) + 1)
			m = m[:k] + "." + m[k:]
		}
		if g.chance(0.3) {
			m = g.shaped(int(prec) + 1) // rounding-relevant tails
			if g.chance(0.5) {
				k := g.intn(len(m) + 1)
				m = m[:k] + "." + m[k:]
			}
		}
		if base == 0 && g.chance(0.3) && len(m) > 3 {
			k := 1 + g.intn(len(m)-2)
			if m[k] != '.' && m[k-1] != '.' {
				m = m[:k] + "_" + m[k:]
			}
		}
		s = []string{"", "+", "-"}[g.intn(3)] + m
		if g.chance(0.5) {
			e := g.intn(81) - 40
			switch g.intn(10) {
			case 0:
				e = int(decimal.MaxExp) - g.intn(70)
			case 1:
				e = int(decimal.MinExp) + g.intn(70)
			case 2:
				e = int(decimal.MaxExp) + g.intn(70)
			case 3: // written exponent below the range, brought back (or not) by the integer digits
				e = int(decimal.MinExp) - g.intn(70)
			case 4: // exactly at the ends: the position of the radix point decides
				e = []int{int(decimal.MinExp), int(decimal.MinExp) + 1, int(decimal.MinExp) - 1, int(decimal.MaxExp), int(decimal.MaxExp) - 1, int(decimal.MaxExp) + 1}[g.intn(6)]
			}
			s += string("eE"[g.intn(2)]) + fmt.Sprintf("%+d", e)
			if g.chance(0.05) {
				s = s[:len(s)-1] + "99999999999999999999"
			}
		}
	case 4: // well-formed non-decimal
		pre := map[int]string{2: "0b", 8: "0o", 16: "0x"}
		bb := []int{2, 8, 16}[g.intn(3)]
		set := map[int]string{2: "01", 8: "01234567", 16: "0123456789abcdefABCDEF"}[bb]
		m := digs(1+g.intn(30), set)
		if g.chance(0.4) {
			k := g.intn(len(m) + 1)
			m = m[:k] + "." + m[k:]
		}
		if g.chance(0.5) {
			base = 0
			s = pre[bb] + m
		} else {
			base = bb
			s = m
		}
		if g.chance(0.6) {
			s += "p" + fmt.Sprintf("%+d", g.intn(301)-150)
		}
		if g.chance(0.3) {
			s = "-" + s
		}
	case 5: // decimal mantissa with binary exponent
		s = digs(1+g.intn(20), "0123456789") + "p" + fmt.Sprintf("%+d", g.intn(201)-100)
		if base != 0 {
			base = 10
		}
	case 8: // a good mantissa followed by a broken exponent part (error after the mantissa was scanned)
		s = digs(1+g.intn(25), "0123456789") + []string{"e", "e+", "e-", "E", "p", "p-", "e_1", "e1_", "e+_", "e99999999999999999999", "e-99999999999999999999", "x", "e5x", "."}[g.intn(14)]
		if g.chance(0.3) {
			s = "." + s
		}
		if base != 0 {
			base = 10
		}
	case 6: // infinities and near misses
		s = []string{"Inf", "inf", "+Inf", "-inf", "-Inf", "INF", "Infinity", "+inf ", "in", "-Inf1"}[g.intn(10)]
	case 7: // mutate a valid literal
		s = "-12_3.4_5e+6"
		b := []byte(s)
		for k := 1 + g.intn(3); k > 0; k-- {
			switch g.intn(3) {
			case 0:
				b[g.intn(len(b))] = litAlphabet[g.intn(len(litAlphabet))]
			case 1:
				i := g.intn(len(b))
				b = append(b[:i], b[i+1:]...)
			default:
				i := g.intn(len(b) + 1)
				b = append(b[:i], append([]byte{litAlphabet[g.intn(len(litAlphabet))]}, b[i:]...)...)
			}
			if len(b) == 0 {
				b = []byte("_")
			}
		}
		s = string(b)
	default: // random bytes over the alphabet
		s = digs(g.intn(10), string(litAlphabet))
	}
	p.Exec(fmt.Sprintf("parse %d %d %x", z, base, s))
}

// float64 bit patterns of interest
func (g *Gen) f64bits() uint64 {
	switch g.intn(10) {
	case 0:
		return []uint64{0, 1 << 63, 0x7ff0000000000000, 0xfff0000000000000, 0x7ff8000000000001, 1, 2, 0x000fffffffffffff,
			0x0010000000000000, 0x7fefffffffffffff, 0x3ff0000000000000, 0x3fe0000000000000, 0x4340000000000000, 0x433fffffffffffff}[g.intn(14)]
	case 1: // subnormal
		return g.r.Uint64() & 0x800fffffffffffff >> uint(g.intn(52))
	case 2: // small integers / halves
		return math.Float64bits(float64(g.intn(4000)-2000) / float64(int(1)<<uint(g.intn(8))))
	case 3: // powers of ten and neighbours
		f := math.Pow(10, float64(g.intn(617)-308))
		return math.Float64bits(f) + uint64(g.intn(3)) - 1
	case 5: // powers of two and their neighbours, with weight on the integer-type boundaries 2^31, 2^32, 2^53, 2^63, 2^64
		k := []int{31, 32, 52, 53, 62, 63, 64, 63, 64, 63}[g.intn(10)]
		if g.chance(0.3) {
			k = g.intn(2098) - 1074
		}
		b := math.Float64bits(math.Ldexp(1, k)) + uint64(g.intn(3)) - 1
		return uint64(g.intn(2))<<63 | b&^(1<<63)
	case 4: // 53-bit integers and their neighbours: the binades where the mantissa needs no (or almost no) scaling
		e := uint64(0x433 + g.intn(5) - 2)
		if g.chance(0.5) {
			e = 0x433
		}
		return uint64(g.intn(2))<<63 | e<<52 | g.r.Uint64()&(1<<52-1)
	default:
		b := g.r.Uint64()
		if (b>>52)&0x7ff == 0x7ff {
			b &^= 1 << 62
		}
		return b
	}
}

// genFloat: binary floating-point conversions (C15).
func (g *Gen) genFloat(p *Prog) {
	k := g.intn(6)
	if g.minExpFloat {
		k = 4
	}
	switch k {
	case 0, 1: // SetFloat64
		z := p.Load(g.receiver(g.prec(true), g.mode()))
		if g.chance(0.2) { // enough precision for the full expansion
			p.setprec(z, uint(770+g.intn(40)))
		}
		p.Exec(fmt.Sprintf("setfloat64 %d %016x", z, g.f64bits()))
	case 2, 3: // Float64 / Float32
		var x Val
		if g.chance(0.12) {
			// a zero (or infinity) that still carries the exponent of an earlier huge / tiny value
			v := g.finite()
			v.Exp = []int64{400, 5000, -400, -5000, 2147483000, -2147483000, 310, -325}[g.intn(8)]
			xi := p.Load(v)
			switch g.intn(4) {
			case 0:
				p.Exec(fmt.Sprintf("sub %d %d %d", xi, xi, xi))
			case 1:
				p.Exec(fmt.Sprintf("setuint64 %d 0", xi))
			case 2:
				p.Exec(fmt.Sprintf("setfloat64 %d 8000000000000000", xi))
			default:
				p.Exec(fmt.Sprintf("setinf %d %d", xi, g.intn(2)))
			}
			p.Exec(fmt.Sprintf("float64 %d", xi))
			p.Exec(fmt.Sprintf("float32 %d", xi))
			return
		}
		if g.chance(0.06) {
			// mantissas of w whole words where floor(19w*log2(10)) is a multiple of 64 (w = 72, 144, ...): the binary
			// buffer of decToNat has no slack there; leading digits high enough to need the top bit
			var ws []int
			for w := 2; w <= 160; w++ {
				if int(float64(19*w)*3.321928094887362)%64 == 0 {
					ws = append(ws, w)
				}
			}
			w := ws[g.intn(len(ws))]
			if g.chance(0.7) {
				w = ws[0]
			}
			d := []byte(g.digitsPattern(19*w - g.intn(19)))
			for i := 0; i < 4 && i < len(d); i++ {
				d[i] = byte('7' + g.intn(3))
			}
			if g.chance(0.5) {
				d[0], d[1] = '9', '9'
			}
			v := Val{Form: 1, Neg: g.intn(2) == 0, Digits: trimZeros(string(d)), Exp: int64(g.intn(601) - 300), Mode: g.mode()}
			v.Prec = uint(len(v.Digits))
			xi := p.Load(v)
			p.Exec(fmt.Sprintf("float64 %d", xi))
			p.Exec(fmt.Sprintf("float32 %d", xi))
			p.Exec(fmt.Sprintf("float %d %d %d %d", xi, 1+g.intn(300), g.intn(6), g.intn(5)))
			return
		}
		switch g.intn(5) {
		case 0, 1: // a float64 value, exactly or perturbed far below one ulp
			f := math.Float64frombits(g.f64bits())
			if math.IsNaN(f) || math.IsInf(f, 0) || f == 0 {
				f = 1.5
			}
			d := new(decimal.Decimal).SetPrec(800).SetFloat64(f)
			if g.chance(0.5) {
				// midpoint to the next float64: exactly, or perturbed in the 40th..700th digit
				nf := math.Nextafter(f, math.Inf(1))
				if !math.IsInf(nf, 0) {
					d2 := new(decimal.Decimal).SetPrec(800).SetFloat64(nf)
					d.Add(d, d2)
					d.Quo(d, decimal.NewDecimal(2, 0))
				}
			}
			if g.chance(0.6) {
				e := d.MantExp(nil) - 20 - g.intn(300)
				eps := new(decimal.Decimal).SetMantExp(decimal.NewDecimal(int64(1+g.intn(9)), 0), e)
				if g.chance(0.5) {
					eps.Neg(eps)
				}
				d.Add(d, eps)
			}
			m, e := d.BitsExp()
			var sb strings.Builder
			for i := len(m) - 1; i >= 0; i-- {
				fmt.Fprintf(&sb, "%019d", uint64(m[i]))
			}
			x = Val{Form: 1, Neg: d.Signbit(), Digits: trimZeros(sb.String()), Exp: int64(e), Mode: g.mode()}
			x.Prec = uint(len(x.Digits))
		case 2:
			x = g.special()
		default:
			x = g.finite()
			if g.chance(0.8) {
				x.Exp = int64(g.intn(700) - 350)
			}
		}
		xi := p.Load(x)
		p.Exec(fmt.Sprintf("float64 %d", xi))
		if g.chance(0.4) {
			p.Exec(fmt.Sprintf("float32 %d", xi))
		}
	case 4: // SetFloat(big.Float)
		z := p.Load(g.receiver(g.prec(true), g.mode()))
		fprec := 1 + g.intn(200)
		if g.chance(0.1) {
			fprec = 1 + g.intn(2000)
		}
		if g.chance(0.1) {
			p.Exec(fmt.Sprintf("setfloat %d %d %d inf", z, fprec, g.intn(2)))
			return
		}
		mant := new(big.Int).Rand(g.r, new(big.Int).Lsh(big.NewInt(1), uint(fprec)))
		if g.chance(0.05) {
			mant.SetInt64(0)
		}
		e2 := g.intn(601) - 300
		if g.chance(0.3) {
			e2 = g.intn(41) - 20 - fprec
		}
		if g.minExpFloat {
			// the smallest big.Float exponents: SetFloat must scale in two steps (2^-fprec, then the rest)
			mant.SetBit(mant, 0, 1)
			e2 = math.MinInt32 - mant.BitLen() + g.intn(mant.BitLen()+3)
			if g.chance(0.2) {
				e2 = math.MinInt32 + g.intn(3)*1000
			}
		}
		p.Exec(fmt.Sprintf("setfloat %d %d %d %s %d", z, fprec, g.intn(2), bigToWords(mant), e2))
	default: // Float(big.Float)
		x := g.any()
		if x.Form == 1 {
			x.Exp = int64(g.intn(401) - 200)
		}
		xi := p.Load(x)
		p.Exec(fmt.Sprintf("float %d %d %d %d", xi, 1+g.intn(300), g.intn(6), g.intn(5)))
		if g.chance(0.3) {
			// zeros and infinities into destinations of every kind
			sv := g.special()
			if sv.Form == 1 { // (special() also yields finite values at the ends of the exponent range: not here)
				sv = Val{Form: 2 * g.intn(2), Neg: g.intn(2) == 0, Prec: g.prec(true), Mode: g.mode()}
			}
			s := p.Load(sv)
			p.Exec(fmt.Sprintf("float %d %d %d %d", s, 1+g.intn(100), g.intn(6), g.intn(5)))
		}
	}
}

// genSqrtEnum: exhaustive sweep of small integers at the precisions where the Newton iteration
// for 1/sqrt stops with the least slack (the final correction loops do all the work there).
func (g *Gen) genSqrtEnum(np func() *Prog, n int) {
	precs := []uint{15, 30}
	modes := []decimal.RoundingMode{decimal.ToNearestEven, decimal.ToZero, decimal.ToPositiveInf}
	for _, prec := range precs {
		for _, mode := range modes {
			p := np()
			z := p.Load(Val{Form: 0, Prec: prec, Mode: mode})
			x := p.Load(Val{Form: 0, Prec: 20})
			for v := 2; v < 2+n; v++ {
				p.Exec(fmt.Sprintf("setint64 %d %d", x, v))
				p.Exec(fmt.Sprintf("sqrt %d %d", z, x))
			}
		}
	}
}
