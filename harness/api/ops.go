package main

// Dispatcher: executes one protocol operation line against the real package.

import (
	"bytes"
	"encoding/gob"
	"encoding/hex"
	"encoding/json"
	"fmt"
	"math"
	"math/big"
	"strconv"
	"strings"

	"github.com/db47h/decimal"
	dctx "github.com/db47h/decimal/context"
)

func atoi(s string) int {
	v, err := strconv.Atoi(s)
	if err != nil {
		panic("harness: bad int " + s)
	}
	return v
}

func atoi64(s string) int64 {
	v, err := strconv.ParseInt(s, 10, 64)
	if err != nil {
		panic("harness: bad int64 " + s)
	}
	return v
}

func atou64(s string) uint64 {
	v, err := strconv.ParseUint(s, 10, 64)
	if err != nil {
		panic("harness: bad uint64 " + s)
	}
	return v
}

// parseWords parses "w0,w1,..." (little endian base 1e19) or "-".
func parseWords(s string) []Word {
	if s == "-" || s == "" {
		return nil
	}
	parts := strings.Split(s, ",")
	w := make([]Word, len(parts))
	for i, p := range parts {
		w[i] = Word(atou64(p))
	}
	return w
}

// wordsToBig converts base-1e19 little-endian words to a big.Int.
func wordsToBig(w []Word) *big.Int {
	z := new(big.Int)
	for i := len(w) - 1; i >= 0; i-- {
		z.Mul(z, bigB)
		z.Add(z, new(big.Int).SetUint64(uint64(w[i])))
	}
	return z
}

// bigToWords converts |x| to base-1e19 little-endian words ("-" for zero).
func bigToWords(x *big.Int) string {
	a := new(big.Int).Abs(x)
	if a.Sign() == 0 {
		return "-"
	}
	var parts []string
	r := new(big.Int)
	for a.Sign() != 0 {
		a.QuoRem(a, bigB, r)
		parts = append(parts, r.String())
	}
	return strings.Join(parts, ",")
}

func signedBig(sign string, words string) *big.Int {
	z := wordsToBig(parseWords(words))
	if sign == "1" {
		z.Neg(z)
	}
	return z
}

func sgn(x *big.Int) string {
	if x.Sign() < 0 {
		return "1"
	}
	return "0"
}

// LoadState creates variable v from a state string (replays, corpus).
func (p *Prog) LoadState(v int, st string) {
	f := strings.Split(st, ":")
	if len(f) != 7 {
		panic("harness: bad state " + st)
	}
	val := Val{Form: atoi(f[0]), Neg: f[1] == "1", Prec: uint(atoi64(f[2])), Mode: decimal.RoundingMode(atoi(f[3])), Exp: atoi64(f[5])}
	d := new(decimal.Decimal)
	d.SetMode(val.Mode)
	d.SetPrec(val.Prec)
	switch val.Form {
	case 0:
		if val.Neg {
			d.Neg(d)
		}
	case 1:
		d.SetBitsExp(parseWords(f[6]), val.Exp)
		if val.Neg {
			d.Neg(d)
		}
	case 2:
		d.SetInf(val.Neg)
	}
	for len(p.vars) <= v {
		p.vars = append(p.vars, new(decimal.Decimal))
	}
	p.vars[v] = d
	fmt.Fprintf(p.out, "L %d %s\n", v, readState(d))
	p.observe("ok", "")
}

func accStr(a decimal.Accuracy) string { return strconv.Itoa(int(a)) }

// Exec runs one operation line. It returns the outcome ("ok", "ErrNaN", "panic:…", "skipped").
func (p *Prog) Exec(line string) string {
	t := strings.Split(line, " ")
	op := t[0]
	v := func(i int) *decimal.Decimal { return p.vars[atoi(t[i])] }
	vi := func(i int) int { return atoi(t[i]) }
	switch op {
	case "add", "sub":
		if p.farApart(vi(2), vi(3)) {
			return "skipped"
		}
		return p.Op(line, []int{vi(1)}, func() string {
			if op == "add" {
				v(1).Add(v(2), v(3))
			} else {
				v(1).Sub(v(2), v(3))
			}
			return ""
		})
	case "mul", "quo":
		return p.Op(line, []int{vi(1)}, func() string {
			if op == "mul" {
				v(1).Mul(v(2), v(3))
			} else {
				v(1).Quo(v(2), v(3))
			}
			return ""
		})
	case "fma":
		if p.fmaFar(vi(2), vi(3), vi(4)) {
			return "skipped"
		}
		return p.Op(line, []int{vi(1)}, func() string {
			v(1).FMA(v(2), v(3), v(4))
			return ""
		})
	case "set", "neg", "abs", "copy", "sqrt":
		return p.Op(line, []int{vi(1)}, func() string {
			switch op {
			case "set":
				v(1).Set(v(2))
			case "neg":
				v(1).Neg(v(2))
			case "abs":
				v(1).Abs(v(2))
			case "copy":
				v(1).Copy(v(2))
			case "sqrt":
				v(1).Sqrt(v(2))
			}
			return ""
		})
	case "setprec":
		return p.Op(line, []int{vi(1)}, func() string { v(1).SetPrec(uint(atou64(t[2]))); return "" })
	case "setmode":
		return p.Op(line, []int{vi(1)}, func() string { v(1).SetMode(decimal.RoundingMode(atoi(t[2]))); return "" })
	case "setinf":
		return p.Op(line, []int{vi(1)}, func() string { v(1).SetInf(t[2] == "1"); return "" })
	case "cmp":
		return p.Op(line, nil, func() string { return strconv.Itoa(v(1).Cmp(v(2))) })
	case "sign":
		return p.Op(line, nil, func() string {
			x := v(1)
			b := func(c bool) string {
				if c {
					return "1"
				}
				return "0"
			}
			return fmt.Sprintf("%d %s %s %s", x.Sign(), b(x.Signbit()), b(x.IsZero()), b(x.IsInf()))
		})
	case "setint64":
		return p.Op(line, []int{vi(1)}, func() string { v(1).SetInt64(atoi64(t[2])); return "" })
	case "setuint64":
		return p.Op(line, []int{vi(1)}, func() string { v(1).SetUint64(atou64(t[2])); return "" })
	case "newdec":
		return p.Op(line, []int{vi(1)}, func() string {
			p.vars[vi(1)] = decimal.NewDecimal(atoi64(t[2]), int(atoi64(t[3])))
			return ""
		})
	case "setint": // setint z sign words
		return p.Op(line, []int{vi(1)}, func() string { v(1).SetInt(signedBig(t[2], t[3])); return "" })
	case "setrat": // setrat z sign numwords denwords
		return p.Op(line, []int{vi(1)}, func() string {
			r := new(big.Rat).SetFrac(signedBig(t[2], t[3]), signedBig("0", t[4]))
			v(1).SetRat(r)
			return ""
		})
	case "setmantexp": // setmantexp z m exp
		return p.Op(line, []int{vi(1)}, func() string { v(1).SetMantExp(v(2), int(atoi64(t[3]))); return "" })
	case "mantexp": // mantexp x m   (m may be "nil")
		if t[2] == "nil" {
			return p.Op(line, nil, func() string { return strconv.Itoa(v(1).MantExp(nil)) })
		}
		return p.Op(line, []int{vi(2)}, func() string { return strconv.Itoa(v(1).MantExp(v(2))) })
	case "bitsexp": // bitsexp x -> words exp
		return p.Op(line, nil, func() string {
			m, e := v(1).BitsExp()
			return fmt.Sprintf("%s %d", wordsString(m), e)
		})
	case "setbitsexp": // setbitsexp z words exp
		return p.Op(line, []int{vi(1)}, func() string { v(1).SetBitsExp(parseWords(t[2]), atoi64(t[3])); return "" })
	case "int64":
		return p.Op(line, nil, func() string { i, a := v(1).Int64(); return fmt.Sprintf("%d %s", i, accStr(a)) })
	case "uint64":
		return p.Op(line, nil, func() string { i, a := v(1).Uint64(); return fmt.Sprintf("%d %s", i, accStr(a)) })
	case "int":
		return p.Op(line, nil, func() string {
			i, a := v(1).Int(nil)
			if i == nil {
				return "nil " + accStr(a)
			}
			return fmt.Sprintf("%s %s %s", sgn(i), bigToWords(i), accStr(a))
		})
	case "rat": // rat x [preset]: into nil, or into a *big.Rat that already holds a fraction
		return p.Op(line, nil, func() string {
			var dst *big.Rat
			if len(t) > 2 {
				switch atoi(t[2]) {
				case 1:
					dst = big.NewRat(2, 3)
				case 2:
					dst = big.NewRat(-7, 1000)
				case 3:
					dst = new(big.Rat)
				}
			}
			r, a := v(1).Rat(dst)
			if r == nil {
				return "nil " + accStr(a)
			}
			return fmt.Sprintf("%s %s %s %s", sgn(r.Num()), bigToWords(r.Num()), bigToWords(r.Denom()), accStr(a))
		})
	case "isint":
		return p.Op(line, nil, func() string {
			if v(1).IsInt() {
				return "1"
			}
			return "0"
		})
	case "minprec":
		return p.Op(line, nil, func() string { return strconv.FormatUint(uint64(v(1).MinPrec()), 10) })
	case "text": // text x fmt prec  ->  "<hex of output> <hex of strconv.FormatFloat output or ->"
		return p.Op(line, nil, func() string {
			f, prec := t[2][0], atoi(t[3])
			out := hex.EncodeToString([]byte(v(1).Text(f, prec)))
			ref := "-"
			if fl, ok := dyadic(v(1)); ok && prec >= 0 && strings.IndexByte("eEfgG", f) >= 0 {
				ref = hex.EncodeToString([]byte(strconv.FormatFloat(fl, f, prec, 64)))
			}
			return out + " " + ref
		})
	case "sprintf": // sprintf x hexformat -> "<hex> <hex of fmt.Sprintf(format, float64) or ->"
		return p.Op(line, nil, func() string {
			fb, _ := hex.DecodeString(t[2])
			format := string(fb)
			out := hex.EncodeToString([]byte(fmt.Sprintf(format, v(1))))
			ref := "-"
			verb := format[len(format)-1]
			if fl, ok := dyadic(v(1)); ok && (strings.Contains(format, ".") || v(1).IsInf()) && strings.IndexByte("eEfFgGv", verb) >= 0 {
				ref = hex.EncodeToString([]byte(fmt.Sprintf(format, fl)))
			}
			return out + " " + ref
		})
	case "marshaltext":
		return p.Op(line, nil, func() string { b, _ := v(1).MarshalText(); return hex.EncodeToString(b) })
	case "marshalhold": // marshalhold x y: the slice MarshalText returned must still hold x's text after later conversions
		return p.Op(line, nil, func() string {
			b, _ := v(1).MarshalText()
			g, _ := v(1).GobEncode()
			g0 := append([]byte(nil), g...)
			for i := 0; i < 3; i++ {
				_ = v(2).Text('g', -1)
				_ = v(2).String()
				_, _ = v(2).MarshalText()
				_, _ = v(2).GobEncode()
				_ = v(1).Text('e', 5)
			}
			if string(g) != string(g0) {
				return "gob-encoding-changed"
			}
			return hex.EncodeToString(b)
		})
	case "marshaljson":
		return p.Op(line, nil, func() string {
			b, err := json.Marshal(v(1))
			if err != nil {
				return "err"
			}
			return hex.EncodeToString(b)
		})
	case "parse": // parse z base [hexstring]  -> "<ok base|err> big=<ok base|err>"
		return p.Op(line, []int{vi(1)}, func() string {
			var s []byte
			if len(t) > 3 {
				s, _ = hex.DecodeString(t[3])
			}
			base := atoi(t[2])
			big1 := "err"
			if _, bb, e := new(big.Float).Parse(string(s), base); e == nil {
				big1 = "ok " + strconv.Itoa(bb)
			} else if strings.Contains(e.Error(), "exponent overflow") {
				// big.Float's exponent range is binary int32: not a statement about the grammar
				big1 = "na"
			}
			d, b, err := v(1).Parse(string(s), base)
			if err != nil {
				if d != nil {
					return "err-nonnil big=" + big1
				}
				return "err big=" + big1
			}
			if d != v(1) {
				return "ok-other big=" + big1
			}
			return "ok " + strconv.Itoa(b) + " big=" + big1
		})
	case "setstring":
		return p.Op(line, []int{vi(1)}, func() string {
			s, _ := hex.DecodeString(t[2])
			d, ok := v(1).SetString(string(s))
			if !ok {
				if d != nil {
					return "err-nonnil"
				}
				return "err"
			}
			return "ok 10"
		})
	case "unmarshaltext":
		return p.Op(line, []int{vi(1)}, func() string {
			s, _ := hex.DecodeString(t[2])
			if err := v(1).UnmarshalText(s); err != nil {
				return "err"
			}
			return "ok"
		})
	case "unmarshaljson":
		return p.Op(line, []int{vi(1)}, func() string {
			s, _ := hex.DecodeString(t[2])
			if err := json.Unmarshal(s, v(1)); err != nil {
				return "err"
			}
			return "ok"
		})
	case "sscan": // fmt.Sscan: longest valid prefix, via the Scan method
		return p.Op(line, []int{vi(1)}, func() string {
			s, _ := hex.DecodeString(t[2])
			if _, err := fmt.Sscan(string(s), v(1)); err != nil {
				return "err"
			}
			return "ok"
		})
	case "parsedecimal": // parsedecimal z base prec mode hex : z := ParseDecimal(...)
		return p.Op(line, []int{vi(1)}, func() string {
			s, _ := hex.DecodeString(t[5])
			d, b, err := decimal.ParseDecimal(string(s), atoi(t[2]), uint(atou64(t[3])), decimal.RoundingMode(atoi(t[4])))
			if err != nil {
				if d != nil {
					return "err-nonnil"
				}
				return "err"
			}
			p.vars[vi(1)] = d
			return "ok " + strconv.Itoa(b)
		})
	case "gobenc":
		return p.Op(line, nil, func() string {
			b, err := v(1).GobEncode()
			if err != nil {
				return "err"
			}
			return hex.EncodeToString(b)
		})
	case "gobdec": // gobdec z hex
		return p.Op(line, []int{vi(1)}, func() string {
			b, _ := hex.DecodeString(t[2])
			if err := v(1).GobDecode(b); err != nil {
				return "err"
			}
			return "ok"
		})
	case "gobrt": // gobrt z x : through encoding/gob
		return p.Op(line, []int{vi(1)}, func() string {
			var buf bytes.Buffer
			if err := gob.NewEncoder(&buf).Encode(v(2)); err != nil {
				return "err"
			}
			if err := gob.NewDecoder(&buf).Decode(v(1)); err != nil {
				return "err"
			}
			return "ok"
		})
	case "float64":
		return p.Op(line, nil, func() string {
			f, a := v(1).Float64()
			return fmt.Sprintf("%016x %s", math.Float64bits(f), accStr(a))
		})
	case "float32":
		return p.Op(line, nil, func() string {
			f, a := v(1).Float32()
			return fmt.Sprintf("%08x %s", math.Float32bits(f), accStr(a))
		})
	case "setfloat64": // setfloat64 z hexbits
		return p.Op(line, []int{vi(1)}, func() string {
			b, _ := strconv.ParseUint(t[2], 16, 64)
			v(1).SetFloat64(math.Float64frombits(b))
			return ""
		})
	case "setfloat": // setfloat z prec sign mantwords(base 1e19 of integer mantissa) exp2 | inf sign
		return p.Op(line, []int{vi(1)}, func() string {
			f := new(big.Float).SetPrec(uint(atou64(t[2])))
			if t[4] == "inf" {
				f.SetInf(t[3] == "1")
			} else {
				f.SetInt(signedBig(t[3], t[4]))
				f.SetMantExp(f, int(atoi64(t[5])))
				if t[3] == "1" && f.Sign() == 0 {
					f.Neg(f)
				}
			}
			v(1).SetFloat(f)
			return ""
		})
	case "float": // float x prec mode [preset] -> sign mantissa-int-words exp2 acc | inf
		return p.Op(line, nil, func() string {
			f := new(big.Float).SetPrec(uint(atou64(t[2]))).SetMode(big.RoundingMode(atoi(t[3])))
			if len(t) > 4 {
				// the destination holds a value already: Float must overwrite it whatever it is
				switch atoi(t[4]) {
				case 1:
					f.SetFloat64(2.75e30)
				case 2:
					f.SetInf(false)
				case 3:
					f.SetInf(true)
				case 4:
					f.SetFloat64(-3.25)
				}
			}
			f = v(1).Float(f)
			return bigFloatString(f)
		})
	// ---- context operations: variable 0.. are decimals, the context is p.ctx
	case "cnew": // cnew prec mode
		return p.Op(line, nil, func() string {
			c := dctx.New(uint(atou64(t[1])), decimal.RoundingMode(atoi(t[2])))
			p.ctx = &c
			return fmt.Sprintf("%d %d", p.ctx.Prec(), int(p.ctx.Mode()))
		})
	case "csetprec":
		return p.Op(line, nil, func() string {
			p.ctx.SetPrec(uint(atou64(t[1])))
			return fmt.Sprintf("%d %d", p.ctx.Prec(), int(p.ctx.Mode()))
		})
	case "csetmode":
		return p.Op(line, nil, func() string {
			p.ctx.SetMode(decimal.RoundingMode(atoi(t[1])))
			return fmt.Sprintf("%d %d", p.ctx.Prec(), int(p.ctx.Mode()))
		})
	case "cerr":
		return p.Op(line, nil, func() string {
			err := p.ctx.Err()
			if err == nil {
				return "nil"
			}
			if _, ok := err.(decimal.ErrNaN); ok {
				return "ErrNaN"
			}
			return "other"
		})
	case "cadd", "csub", "cmul", "cquo":
		if (op == "cadd" || op == "csub") && p.farApart(vi(2), vi(3)) {
			return "skipped"
		}
		return p.Op(line, []int{vi(1)}, func() string {
			var r *decimal.Decimal
			switch op {
			case "cadd":
				r = p.ctx.Add(v(1), v(2), v(3))
			case "csub":
				r = p.ctx.Sub(v(1), v(2), v(3))
			case "cmul":
				r = p.ctx.Mul(v(1), v(2), v(3))
			case "cquo":
				r = p.ctx.Quo(v(1), v(2), v(3))
			}
			return retIs(r, v(1))
		})
	case "cfma":
		if p.fmaFar(vi(2), vi(3), vi(4)) {
			return "skipped"
		}
		return p.Op(line, []int{vi(1)}, func() string { return retIs(p.ctx.FMA(v(1), v(2), v(3), v(4)), v(1)) })
	case "cset", "cneg", "cabs", "csqrt":
		return p.Op(line, []int{vi(1)}, func() string {
			var r *decimal.Decimal
			switch op {
			case "cset":
				r = p.ctx.Set(v(1), v(2))
			case "cneg":
				r = p.ctx.Neg(v(1), v(2))
			case "cabs":
				r = p.ctx.Abs(v(1), v(2))
			case "csqrt":
				r = p.ctx.Sqrt(v(1), v(2))
			}
			return retIs(r, v(1))
		})
	case "cnil": // cnil z y [method]: a context operation with a nil operand: a non-NaN panic source
		return p.Op(line, []int{vi(1)}, func() string {
			m := "add"
			if len(t) > 3 {
				m = t[3]
			}
			switch m {
			case "sub":
				return retIs(p.ctx.Sub(v(1), v(2), nil), v(1))
			case "mul":
				return retIs(p.ctx.Mul(v(1), nil, v(2)), v(1))
			case "quo":
				return retIs(p.ctx.Quo(v(1), v(2), nil), v(1))
			case "fma":
				return retIs(p.ctx.FMA(v(1), v(2), v(2), nil), v(1))
			case "sqrt":
				return retIs(p.ctx.Sqrt(v(1), nil), v(1))
			}
			return retIs(p.ctx.Add(v(1), nil, v(2)), v(1))
		})
	case "cnewf64": // z := ctx.NewFloat64(bits): a NaN must be latched, not raised
		return p.Op(line, []int{vi(1)}, func() string {
			b, _ := strconv.ParseUint(t[2], 16, 64)
			p.vars[vi(1)] = p.ctx.NewFloat64(math.Float64frombits(b))
			return ""
		})
	case "cnewint64": // z := ctx.NewInt64(v)
		return p.Op(line, []int{vi(1)}, func() string { p.vars[vi(1)] = p.ctx.NewInt64(atoi64(t[2])); return "" })
	case "cnewstring":
		return p.Op(line, []int{vi(1)}, func() string {
			s, _ := hex.DecodeString(t[2])
			d, ok := p.ctx.NewString(string(s))
			if !ok {
				return "err"
			}
			p.vars[vi(1)] = d
			return "ok"
		})
	}
	panic("harness: unknown op " + op)
}

func retIs(r, z *decimal.Decimal) string {
	if r == z {
		return "z"
	}
	return "other"
}

// bigFloatString renders a big.Float exactly: "sign mantwords exp2 prec acc" or "inf sign" or "zero sign".
func bigFloatString(f *big.Float) string {
	if f.IsInf() {
		if f.Signbit() {
			return "inf 1"
		}
		return "inf 0"
	}
	sign := "0"
	if f.Signbit() {
		sign = "1"
	}
	if f.Sign() == 0 {
		return "zero " + sign
	}
	m := new(big.Float).Copy(f)
	e := m.MantExp(m)
	mp := m.MinPrec()
	m.SetMantExp(m, int(mp))
	i, _ := m.Int(nil)
	return fmt.Sprintf("fin %s %s %d %d %d", sign, bigToWords(i), e-int(mp), f.Prec(), int(f.Acc()))
}

// dyadic reports whether x is finite, in ToNearestEven mode, and exactly a float64 (so that
// strconv/fmt applied to that float64 are an oracle for the digits and the layout).
func dyadic(x *decimal.Decimal) (float64, bool) {
	if x.IsInf() {
		// fmt's layout of ±Inf (sign flags, width, no zero padding) does not depend on the mode
		if x.Signbit() {
			return math.Inf(-1), true
		}
		return math.Inf(1), true
	}
	if x.Mode() != decimal.ToNearestEven {
		return 0, false
	}
	if x.IsZero() {
		if x.Signbit() {
			return math.Copysign(0, -1), true
		}
		return 0, true
	}
	if e := x.MantExp(nil); e > 300 || e < -300 {
		return 0, false
	}
	r, _ := x.Rat(nil)
	if r == nil {
		return 0, false
	}
	f, exact := r.Float64()
	if !exact || math.IsInf(f, 0) {
		return 0, false
	}
	return f, true
}
