package main

import (
	"bufio"
	"flag"
	"fmt"
	"math/rand"
	"os"
	"strings"
)

func main() {
	prop := flag.String("prop", "C01", "property id")
	seed := flag.Int64("seed", 1, "PRNG seed")
	n := flag.Int("n", 1000, "number of programs")
	tier := flag.String("tier", "quick", "quick|thorough")
	outPath := flag.String("out", "", "transcript file (default stdout)")
	maxDig := flag.Int("maxdig", 0, "typical max digits")
	replay := flag.String("replay", "", "re-execute the P/L/O lines of this file instead of generating")
	flag.Parse()

	var w *bufio.Writer
	if *outPath == "" {
		w = bufio.NewWriterSize(os.Stdout, 1<<20)
	} else {
		f, err := os.Create(*outPath)
		if err != nil {
			fmt.Fprintln(os.Stderr, err)
			os.Exit(2)
		}
		defer f.Close()
		w = bufio.NewWriterSize(f, 1<<20)
	}
	defer w.Flush()

	g := &Gen{r: rand.New(rand.NewSource(*seed)), tier: *tier, maxDig: 120, hugeDig: 1400}
	if *tier == "thorough" {
		g.maxDig, g.hugeDig = 400, 23000
	}
	if *maxDig > 0 {
		g.maxDig = *maxDig
	}
	staleRand = g.intn
	if *replay != "" {
		doReplay(*replay, w)
		return
	}
	fmt.Fprintf(w, "# prop=%s seed=%d n=%d tier=%s\n", *prop, *seed, *n, *tier)
	generate(g, *prop, *n, w)
}

// doReplay re-executes the program lines (P, L, O) of a transcript or replay file.
func doReplay(path string, w *bufio.Writer) {
	f, err := os.Open(path)
	if err != nil {
		fmt.Fprintln(os.Stderr, err)
		os.Exit(2)
	}
	defer f.Close()
	sc := bufio.NewScanner(f)
	sc.Buffer(make([]byte, 1<<20), 1<<28)
	var p *Prog
	for sc.Scan() {
		line := sc.Text()
		switch {
		case line == "P":
			p = newProg(w)
		case strings.HasPrefix(line, "L "):
			if p == nil {
				p = newProg(w)
			}
			t := strings.SplitN(line[2:], " ", 2)
			p.LoadState(atoi(t[0]), t[1])
		case strings.HasPrefix(line, "O "):
			if p == nil {
				p = newProg(w)
			}
			p.Exec(line[2:])
		}
	}
}

// mixGens: every operation family, for the "mix" generator that each property runs beside its own
// generators (a defect in a helper shared by several operations surfaces in whichever family reaches it).
var mixGens = []string{"C01", "C02", "C03", "C05", "C08", "C11", "C12", "C13", "C14", "C15", "C16", "C17", "C19", "C20", "setters"}

func generate(g *Gen, prop string, n int, w *bufio.Writer) {
	np := func() *Prog { return newProg(w) }
	if prop == "mix" {
		for i, sub := range mixGens {
			k := n / len(mixGens)
			if i < n%len(mixGens) {
				k++
			}
			if k > 0 {
				generate(g, sub, k, w)
			}
		}
		return
	}
	switch prop {
	case "C01", "C02":
		ops := []string{"add", "sub", "mul", "quo", "set", "neg", "abs", "setprec"}
		if prop == "C02" {
			ops = []string{"add", "sub", "mul", "quo", "set", "setprec"}
		}
		for i := 0; i < n; i++ {
			g.genArith(np(), ops)
		}
	case "C03":
		for i := 0; i < n; i++ {
			g.genFMA(np())
		}
	case "C04":
		g.genSpecialProduct(np)
		for i := 0; i < n; i++ {
			g.genArith(np(), []string{"add", "sub", "mul", "quo"})
		}
	case "C16":
		for i := 0; i < n; i++ {
			g.genCmp(np())
		}
	case "C08", "C09", "C10":
		for i := 0; i < n; i++ {
			g.genProgram(np(), 5+g.intn(40))
		}
	case "C05":
		for i := 0; i < n; i++ {
			g.genSqrt(np())
		}
	case "sqrtenum":
		g.genSqrtEnum(np, n)
	case "setters":
		for i := 0; i < n; i++ {
			g.genSetters(np())
		}
	case "C14":
		for i := 0; i < n; i++ {
			if i%2 == 0 {
				g.genConv(np())
			} else {
				g.genSetters(np())
			}
		}
	case "C20":
		for i := 0; i < n; i++ {
			g.genRaw(np())
		}
	case "C13":
		for i := 0; i < n; i++ {
			g.genText(np())
		}
	case "C11":
		for i := 0; i < n; i++ {
			g.genRoundTrip(np())
		}
	case "C12":
		for i := 0; i < n; i++ {
			g.genParse(np())
		}
	case "C15":
		for i := 0; i < n; i++ {
			g.genFloat(np())
		}
	case "floatmin":
		g.minExpFloat = true
		for i := 0; i < n; i++ {
			g.genFloat(np())
		}
	case "C17":
		for i := 0; i < n; i++ {
			g.genGob(np())
		}
	case "C19":
		for i := 0; i < n; i++ {
			g.genContext(np(), 3+g.intn(38))
		}
	default:
		fmt.Fprintf(os.Stderr, "unknown property %s\n", prop)
		os.Exit(2)
	}
}
