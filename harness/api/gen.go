package main

// Generators of "interesting" decimals. Every random choice comes from one PRNG.

import (
	"math/big"
	"math/rand"
	"strings"

	"github.com/db47h/decimal"
)

const DW = 19

var bigB = new(big.Int).Exp(big.NewInt(10), big.NewInt(DW), nil)

type Word = decimal.Word

// Val is a generator-level description of a Decimal operand.
type Val struct {
	Form   int // 0 zero 1 finite 2 inf
	Neg    bool
	Digits string // significant digits, first one non-zero (finite only)
	Exp    int64  // value = 0.Digits × 10^Exp
	Prec   uint   // precision of the variable (>= len(Digits) for finite)
	Mode   decimal.RoundingMode
}

type Gen struct {
	r           *rand.Rand
	maxDig      int // typical upper bound on digits
	hugeDig     int // rare upper bound
	tier        string
	minExpFloat bool // SetFloat cases use the smallest big.Float exponents
}

func (g *Gen) intn(n int) int        { return g.r.Intn(n) }
func (g *Gen) chance(p float64) bool { return g.r.Float64() < p }

func (g *Gen) mode() decimal.RoundingMode { return decimal.RoundingMode(g.intn(6)) }

// prec picks a receiver precision: small, around multiples of 19, sometimes 0.
func (g *Gen) prec(allowZero bool) uint {
	switch k := g.intn(20); {
	case k == 0 && allowZero:
		return 0
	case k < 8:
		return uint(1 + g.intn(12))
	case k < 13:
		return uint(13 + g.intn(30))
	case k < 18:
		m := 19 * (1 + g.intn(4))
		return uint(m - 1 + g.intn(3))
	default:
		return uint(1 + g.intn(g.maxDig))
	}
}

// digitsPattern returns n digits (first non-zero) following one of several patterns.
func (g *Gen) digitsPattern(n int) string {
	if n < 1 {
		n = 1
	}
	b := make([]byte, n)
	switch g.intn(12) {
	case 0: // all nines
		for i := range b {
			b[i] = '9'
		}
	case 1: // 1 then zeros
		for i := range b {
			b[i] = '0'
		}
		b[0] = '1'
	case 2: // 5 then zeros
		for i := range b {
			b[i] = '0'
		}
		b[0] = '5'
	case 3: // runs of 0s and 9s
		i := 0
		for i < n {
			run := 1 + g.intn(25)
			c := byte('0')
			if g.intn(2) == 0 {
				c = '9'
			}
			for j := 0; j < run && i < n; j++ {
				b[i] = c
				i++
			}
		}
	case 4: // random with a zero word region
		for i := range b {
			b[i] = byte('0' + g.intn(10))
		}
		if n > 25 {
			s := g.intn(n - 20)
			for i := s; i < s+19+g.intn(3) && i < n; i++ {
				b[i] = '0'
			}
		}
	case 5: // mostly zeros with a final digit
		for i := range b {
			b[i] = '0'
		}
		b[n-1] = byte('1' + g.intn(9))
	default:
		for i := range b {
			b[i] = byte('0' + g.intn(10))
		}
	}
	if b[0] == '0' {
		b[0] = byte('1' + g.intn(9))
	}
	return string(b)
}

func trimZeros(s string) string {
	s = strings.TrimRight(s, "0")
	if s == "" {
		return "0"
	}
	return s
}

// ndig picks a digit count.
func (g *Gen) ndig() int {
	switch k := g.intn(20); {
	case k < 6:
		return 1 + g.intn(8)
	case k < 12:
		return 1 + g.intn(40)
	case k < 15:
		return 19*(1+g.intn(3)) - 1 + g.intn(3)
	case k < 19:
		return 1 + g.intn(g.maxDig)
	default:
		return 1 + g.intn(g.hugeDig)
	}
}

// exp picks an exponent: mostly small, sometimes at the range edges.
func (g *Gen) exp() int64 {
	switch k := g.intn(40); {
	case k == 0:
		return int64(decimal.MaxExp) - int64(g.intn(3))
	case k == 1:
		return int64(decimal.MinExp) + int64(g.intn(3))
	case k < 6:
		return int64(g.intn(2001) - 1000)
	default:
		return int64(g.intn(61) - 30)
	}
}

// finite returns a finite operand whose precision holds its digits.
func (g *Gen) finite() Val {
	n := g.ndig()
	d := trimZeros(g.digitsPattern(n))
	p := uint(len(d))
	switch g.intn(4) {
	case 0: // exactly fits
	case 1:
		p += uint(g.intn(5))
	default:
		p += uint(g.intn(40))
	}
	return Val{Form: 1, Neg: g.intn(2) == 0, Digits: d, Exp: g.exp(), Prec: p, Mode: g.mode()}
}

// any returns an operand of any class.
func (g *Gen) any() Val {
	switch k := g.intn(16); {
	case k == 0:
		return Val{Form: 0, Neg: g.intn(2) == 0, Prec: g.prec(true), Mode: g.mode()}
	case k == 1:
		return Val{Form: 2, Neg: g.intn(2) == 0, Prec: g.prec(true), Mode: g.mode()}
	default:
		return g.finite()
	}
}

func (g *Gen) special() Val {
	switch g.intn(3) {
	case 0:
		return Val{Form: 0, Neg: g.intn(2) == 0, Prec: g.prec(true), Mode: g.mode()}
	case 1:
		return Val{Form: 2, Neg: g.intn(2) == 0, Prec: g.prec(true), Mode: g.mode()}
	default:
		return g.finite()
	}
}

// digitsToWords converts significant digits into a normalised little-endian mantissa
// (most significant digit in the top position of the top word).
func digitsToWords(d string) []Word {
	n := (len(d) + DW - 1) / DW
	padded := d + strings.Repeat("0", n*DW-len(d))
	w := make([]Word, n)
	for i := 0; i < n; i++ {
		chunk := padded[i*DW : (i+1)*DW]
		var v uint64
		for _, c := range chunk {
			v = v*10 + uint64(c-'0')
		}
		w[n-1-i] = Word(v)
	}
	return w
}

func digitsToInt(d string) *big.Int {
	z, _ := new(big.Int).SetString(d, 10)
	return z
}

// intToVal builds a Val for the integer v × 10^e10 (v > 0).
func intToVal(v *big.Int, e10 int64, neg bool, extraPrec uint, mode decimal.RoundingMode) Val {
	s := v.String()
	exp := e10 + int64(len(s))
	d := trimZeros(s)
	return Val{Form: 1, Neg: neg, Digits: d, Exp: exp, Prec: uint(len(d)) + extraPrec, Mode: mode}
}

// tailPatterns are digit tails that follow the kept digits of a constructed result.
func (g *Gen) tail() string {
	k := 1 + g.intn(24)
	if g.chance(0.25) {
		// runs longer than one or two whole words: the decisive digit lies beyond any fixed number of guard words
		k = 19*(1+g.intn(3)) + g.intn(20)
	}
	z := func(n int) string { return strings.Repeat("0", n) }
	nn := func(n int) string { return strings.Repeat("9", n) }
	switch g.intn(9) {
	case 0:
		return "5"
	case 1:
		return "5" + z(k)
	case 2:
		return "4" + nn(k)
	case 3:
		return "5" + z(k) + "1"
	case 4:
		return z(k) + "1"
	case 5:
		return nn(k)
	case 6:
		return ""
	default:
		b := make([]byte, k)
		for i := range b {
			b[i] = byte('0' + g.intn(10))
		}
		return string(b)
	}
}

// shaped returns a digit string: p leading digits (pattern) followed by a rounding-relevant tail.
func (g *Gen) shaped(p int) string {
	head := g.digitsPattern(p)
	if g.chance(0.15) {
		head = strings.Repeat("9", p)
	}
	return head + g.tail()
}
