package main

// Per-property case generators. Each emits programs into the transcript.

import (
	"fmt"
	"math/big"
	"strings"

	"github.com/db47h/decimal"
)

// receiver returns a receiver variable with the given attributes holding some old contents.
func (g *Gen) receiver(prec uint, mode decimal.RoundingMode) Val {
	// old contents: anything whose digits fit prec (or a special)
	switch g.intn(5) {
	case 0:
		return Val{Form: 0, Neg: g.intn(2) == 0, Prec: prec, Mode: mode}
	case 1:
		return Val{Form: 2, Neg: g.intn(2) == 0, Prec: prec, Mode: mode}
	default:
		if prec == 0 {
			return Val{Form: 0, Prec: 0, Mode: mode}
		}
		n := 1 + g.intn(int(prec))
		if n > g.maxDig {
			n = g.maxDig
		}
		return Val{Form: 1, Neg: g.intn(2) == 0, Digits: trimZeros(g.digitsPattern(n)), Exp: g.exp(), Prec: prec, Mode: mode}
	}
}

// pairForAdd constructs x, y such that x+y (or x-y) has the shape head(p)+tail.
func (g *Gen) pairForAdd(p int, sub bool) (Val, Val) {
	r := digitsToInt(g.shaped(p))
	// y: a smaller number, possibly much smaller
	ylen := 1 + g.intn(len(r.String()))
	y := digitsToInt(g.digitsPattern(ylen))
	shift := int64(0)
	if g.chance(0.4) {
		// give y trailing zeros so exponents differ
		sh := g.intn(12)
		y.Mul(y, new(big.Int).Exp(big.NewInt(10), big.NewInt(int64(sh)), nil))
	}
	var x *big.Int
	negx := g.intn(2) == 0
	negy := negx
	if sub {
		// x - y = r  => x = r + y  (same signs subtract)
		x = new(big.Int).Add(r, y)
		if g.chance(0.5) {
			// as an addition of opposite signs: x + (-y)
			negy = !negx
			sub = false
		}
	} else {
		if y.Cmp(r) >= 0 {
			y.Rsh(r, 1)
			if y.Sign() == 0 {
				y.SetInt64(1)
			}
		}
		x = new(big.Int).Sub(r, y)
		if x.Sign() == 0 {
			x.SetInt64(1)
		}
	}
	e := g.exp()
	if e > 2147483000 {
		e -= int64(len(x.String())) + 10
	}
	_ = shift
	vx := intToVal(x, e, negx, uint(g.intn(4)), g.mode())
	vy := intToVal(y, e, negy, uint(g.intn(4)), g.mode())
	return vx, vy
}

func opName(k int) string {
	return [...]string{"add", "sub", "mul", "quo", "set", "neg", "abs", "setprec"}[k]
}

func decOf(p *Prog, i int) *decimal.Decimal { return p.vars[i] }

// binary executes z.op(x, y) with variable indices (aliasing = equal indices).
func (p *Prog) binary(op string, z, x, y int) string {
	return p.Exec(fmt.Sprintf("%s %d %d %d", op, z, x, y))
}

func (p *Prog) unary(op string, z, x int) string {
	return p.Exec(fmt.Sprintf("%s %d %d", op, z, x))
}

func (p *Prog) fma(z, x, y, u int) string {
	return p.Exec(fmt.Sprintf("fma %d %d %d %d", z, x, y, u))
}

func (p *Prog) setprec(z int, prec uint) string {
	return p.Exec(fmt.Sprintf("setprec %d %d", z, prec))
}

func (p *Prog) setmode(z int, m decimal.RoundingMode) string {
	return p.Exec(fmt.Sprintf("setmode %d %d", z, int(m)))
}

func (p *Prog) cmp(x, y int) string {
	return p.Exec(fmt.Sprintf("cmp %d %d", x, y))
}

// related returns y related to x: close exponent, maybe same digits, for add/sub/cmp interest.
func (g *Gen) related(x Val) Val {
	if x.Form != 1 {
		return g.any()
	}
	y := g.finite()
	switch g.intn(6) {
	case 0: // same magnitude
		y.Digits, y.Exp = x.Digits, x.Exp
		y.Prec = uint(len(y.Digits)) + uint(g.intn(30))
	case 1: // same digits plus trailing ones
		y.Digits = x.Digits + strings.Repeat("0", g.intn(40)) + "1"
		y.Exp = x.Exp
		y.Prec = uint(len(y.Digits)) + uint(g.intn(3))
	case 2: // differ in last digit
		b := []byte(x.Digits)
		if b[len(b)-1] == '9' {
			b[len(b)-1] = '8'
		} else {
			b[len(b)-1]++
		}
		y.Digits, y.Exp = string(b), x.Exp
		y.Prec = uint(len(y.Digits)) + uint(g.intn(3))
	case 3: // exponent nearby
		y.Exp = x.Exp + int64(g.intn(9)-4)
	case 4: // exponent far (sticky only)
		y.Exp = x.Exp - int64(len(x.Digits)) - int64(g.intn(60))
	default:
		y.Exp = x.Exp + int64(g.intn(81)-40)
	}
	if y.Exp > int64(decimal.MaxExp) {
		y.Exp = int64(decimal.MaxExp)
	}
	if y.Exp < int64(decimal.MinExp) {
		y.Exp = int64(decimal.MinExp)
	}
	return y
}

// aliasPick returns argument indices for (z, args...) choosing an aliasing shape at random.
func (g *Gen) aliasShape(n int, pAlias float64) []int {
	idx := make([]int, n)
	for i := range idx {
		idx[i] = i
	}
	if g.chance(pAlias) {
		// merge random pairs
		for k := 0; k < 1+g.intn(2); k++ {
			a, b := g.intn(n), g.intn(n)
			idx[b] = idx[a]
		}
	}
	return idx
}

// genArith emits single-operation programs for C01/C02/C10.
func (g *Gen) genArith(p *Prog, ops []string) {
	op := ops[g.intn(len(ops))]
	prec := g.prec(true)
	mode := g.mode()
	switch op {
	case "add", "sub":
		var x, y Val
		if g.chance(0.06) {
			// cancellation down to below the exponent range: x = a*10^k + r, y = a*10^k with x's exponent a few
			// digits above MinExp, so the (inexact, non-zero) difference underflows to a signed zero
			a := g.digitsPattern(2 + g.intn(30))
			if a[0] == '0' {
				a = "1" + a[1:]
			}
			k := 1 + g.intn(25)
			r := 1 + g.intn(999)
			av := digitsToInt(a + strings.Repeat("0", k))
			xv := new(big.Int).Add(av, big.NewInt(int64(r)))
			if g.chance(0.3) {
				xv.Sub(av, big.NewInt(int64(r)))
			}
			// value = int * 10^e with the leading digit at exponent MinExp+j
			j := int64(g.intn(len(a) + k + 2))
			e := int64(decimal.MinExp) + j - int64(len(a)+k)
			neg := g.intn(2) == 0
			x = intToVal(xv, e, neg, uint(g.intn(3)), g.mode())
			y = intToVal(av, e, neg != (op == "add"), uint(g.intn(3)), g.mode())
			if x.Exp < int64(decimal.MinExp) || y.Exp < int64(decimal.MinExp) {
				x, y = g.pairForAdd(int(prec)+1, op == "sub")
			}
		} else if g.chance(0.06) {
			// operands of different word lengths, aligned at the low end, whose carry ripples through every remaining
			// all-nines word of the longer one and out of its top: x = 99…9|L (lx words), y = 10^(19·ly) − L (ly words)
			lx := 2 + g.intn(6)
			ly := 1 + g.intn(lx-1)
			low := g.digitsPattern(19*ly - 1) + string("123456789"[g.intn(9)])
			lowv := digitsToInt(low)
			if lowv.Sign() == 0 {
				lowv.SetInt64(3)
			}
			yv := new(big.Int).Sub(new(big.Int).Exp(big.NewInt(10), big.NewInt(int64(19*ly)), nil), lowv)
			xv := digitsToInt(strings.Repeat("9", 19*(lx-ly)) + fmt.Sprintf("%0*s", 19*ly, lowv.String()))
			e := int64(g.intn(41) - 20)
			negx := g.intn(2) == 0
			negy := negx != (op == "sub") // magnitudes add
			x = intToVal(xv, e, negx, uint(g.intn(3)), g.mode())
			y = intToVal(yv, e, negy, uint(g.intn(3)), g.mode())
			if g.chance(0.5) {
				x, y = y, x
				if op == "sub" {
					x.Neg, y.Neg = !x.Neg, !y.Neg
				}
			}
			if g.chance(0.5) {
				prec = uint(19*lx + 1 + g.intn(20)) // exact result with the new top word
			}
		} else if g.chance(0.12) {
			// one operand far below the other's digits needed for rounding: it can only decide through the sticky
			// bit (or, under subtraction from a power of ten, through a borrow across a decade). Precisions next to
			// multiples of the word size, gaps on both sides of the precision and of the word boundaries, large operand
			// a power of ten / all nines / exactly prec digits / short.
			pw := []int{1, 2, 17, 18, 19, 20, 21, 36, 37, 38, 39, 40, 56, 57, 58, 75, 76}[g.intn(17)]
			if g.chance(0.3) {
				pw = 1 + g.intn(80)
			}
			prec = uint(pw)
			var xd string
			switch g.intn(5) {
			case 0:
				xd = "1"
			case 1:
				xd = strings.Repeat("9", pw+g.intn(3)-1+1)
			case 2:
				xd = "1" + strings.Repeat("0", g.intn(pw+20)) + "1"
			case 3:
				xd = g.shaped(pw)
			default:
				xd = g.digitsPattern(1 + g.intn(pw+25))
			}
			xd = strings.TrimLeft(xd, "0")
			if xd == "" {
				xd = "1"
			}
			xe := int64(g.intn(41) - 20)
			if g.chance(0.1) {
				xe = int64(decimal.MaxExp) - int64(g.intn(3))
			}
			if g.chance(0.1) {
				xe = int64(decimal.MinExp) + int64(pw) + 100 + int64(g.intn(3))
			}
			gap := pw + g.intn(48) - 3 // digits between x's leading digit and y's leading digit
			if g.chance(0.25) {
				gap = 19*(1+g.intn(6)) + g.intn(3) - 1
			}
			if g.chance(0.15) {
				gap = pw + 50 + g.intn(400)
			}
			if gap < 1 {
				gap = 1
			}
			yd := []string{"1", "5", "9", "49999", "50001", "5"}[g.intn(6)]
			if g.chance(0.3) {
				yd = trimZeros(strings.TrimLeft(g.digitsPattern(1+g.intn(30)), "0") + "3")
			}
			negx := g.intn(2) == 0
			negy := negx
			if g.chance(0.65) {
				negy = !negx // magnitudes subtract under add (and add under sub)
			}
			x = Val{Form: 1, Neg: negx, Digits: trimZeros(xd), Exp: xe, Prec: uint(len(xd)) + uint(g.intn(3)), Mode: g.mode()}
			y = Val{Form: 1, Neg: negy, Digits: yd, Exp: xe - int64(gap), Prec: uint(len(yd)) + uint(g.intn(3)), Mode: g.mode()}
			if x.Digits == "" {
				x.Digits = "1"
			}
			if g.chance(0.5) {
				x, y = y, x
			}
		} else if prec > 0 && g.chance(0.6) {
			x, y = g.pairForAdd(int(prec), op == "sub")
		} else {
			x = g.any()
			y = g.related(x)
		}
		vals := []Val{g.receiver(prec, mode), x, y}
		sh := g.aliasShape(3, 0.15)
		vi := p.loadShape(vals, sh)
		p.binary(op, vi[0], vi[1], vi[2])
	case "mul":
		x := g.any()
		y := g.any()
		if g.chance(0.3) && x.Form == 1 {
			// multiplier that produces ties: 5, 25, 125 …
			k := 1 + g.intn(6)
			v := new(big.Int).Exp(big.NewInt(5), big.NewInt(int64(k)), nil)
			y = intToVal(v, int64(g.intn(5)-2), g.intn(2) == 0, uint(g.intn(3)), g.mode())
			if prec > 0 {
				x.Digits = trimZeros(g.digitsPattern(int(prec)))
				x.Prec = uint(len(x.Digits))
			}
		}
		g.clampMulExp(&x, &y)
		vals := []Val{g.receiver(prec, mode), x, y}
		sh := g.aliasShape(3, 0.15)
		vi := p.loadShape(vals, sh)
		p.binary(op, vi[0], vi[1], vi[2])
	case "quo":
		x := g.any()
		y := g.any()
		switch g.intn(6) {
		case 0: // divisor a power of two: ties
			if x.Form == 1 {
				k := 1 + g.intn(10)
				y = intToVal(new(big.Int).Lsh(big.NewInt(1), uint(k)), int64(g.intn(5)-2), g.intn(2) == 0, 0, g.mode())
				if prec > 0 {
					x.Digits = trimZeros(g.digitsPattern(int(prec)))
					x.Prec = uint(len(x.Digits))
				}
			}
		case 3: // dividend much longer than the receiver's precision: x = (q*y)*10^k + r with 0 < r < 10^k,
			// so the quotient of the high part is exact and the low part only makes the result inexact
			yy := digitsToInt(g.digitsPattern(1 + g.intn(25)))
			q := digitsToInt(g.digitsPattern(1 + g.intn(12)))
			if g.chance(0.5) { // quotient ending in 5 at the rounding position, or with a zero rounding digit
				q.Mul(q, big.NewInt(10))
				q.Add(q, big.NewInt(int64([]int{0, 5, 0, 5, 1}[g.intn(5)])))
			}
			k := 19 * (1 + g.intn(4))
			hi := new(big.Int).Mul(q, yy)
			hi.Mul(hi, new(big.Int).Exp(big.NewInt(10), big.NewInt(int64(k)), nil))
			r := big.NewInt(int64(1 + g.intn(9)))
			if g.chance(0.5) {
				r = digitsToInt(g.digitsPattern(1 + g.intn(k-1)))
			}
			hi.Add(hi, r)
			y = intToVal(yy, int64(g.intn(9)-4), g.intn(2) == 0, uint(g.intn(3)), g.mode())
			x = intToVal(hi, int64(g.intn(9)-4), g.intn(2) == 0, uint(g.intn(3)), g.mode())
			prec = uint(len(q.String())) - uint(g.intn(2))
			if prec == 0 {
				prec = 1
			}
			if g.chance(0.3) {
				prec += uint(g.intn(4))
			}
		case 2: // Knuth-D stress through the public API: adversarial divisor words, exact multiples
			wordsOf := func(n int) string {
				var sb strings.Builder
				for i := 0; i < n; i++ {
					w := []string{"9999999999999999999", "9999999999999999998", "5000000000000000000", "4999999999999999999", "0000000000000000000",
						"0000000000000000001", "1000000000000000000", "5000000000000000001"}[g.intn(8)]
					if i == 0 && (w[0] == '0') {
						w = "5000000000000000000"
					}
					sb.WriteString(w)
				}
				return sb.String()
			}
			yy := digitsToInt(wordsOf(2 + g.intn(4)))
			q := digitsToInt(wordsOf(1 + g.intn(4)))
			prod := new(big.Int).Mul(q, yy)
			if g.chance(0.3) {
				prod.Add(prod, big.NewInt(int64(g.intn(3))))
			}
			y = intToVal(yy, int64(g.intn(9)-4), g.intn(2) == 0, uint(g.intn(3)), g.mode())
			x = intToVal(prod, int64(g.intn(9)-4), g.intn(2) == 0, uint(g.intn(3)), g.mode())
			if g.chance(0.6) {
				prec = uint(len(q.String())) + uint(g.intn(40))
			}
		case 1: // exact quotient x = q*y
			if y.Form == 1 && len(y.Digits) < 400 {
				q := digitsToInt(g.digitsPattern(1 + g.intn(30)))
				yy := digitsToInt(y.Digits)
				x = intToVal(new(big.Int).Mul(q, yy), int64(g.intn(21)-10), g.intn(2) == 0, uint(g.intn(3)), g.mode())
			}
		}
		vals := []Val{g.receiver(prec, mode), x, y}
		sh := g.aliasShape(3, 0.15)
		vi := p.loadShape(vals, sh)
		p.binary(op, vi[0], vi[1], vi[2])
	case "set", "neg", "abs":
		x := g.any()
		if prec > 0 && g.chance(0.7) {
			x = Val{Form: 1, Neg: g.intn(2) == 0, Digits: trimZeros(g.shaped(int(prec))), Exp: g.exp(), Mode: g.mode()}
			x.Prec = uint(len(x.Digits)) + uint(g.intn(3))
		}
		vals := []Val{g.receiver(prec, mode), x}
		sh := g.aliasShape(2, 0.1)
		vi := p.loadShape(vals, sh)
		p.unary(op, vi[0], vi[1])
	case "setprec":
		np := g.prec(true)
		if np == 0 && g.chance(0.8) {
			np = 1 + uint(g.intn(20))
		}
		x := Val{Form: 1, Neg: g.intn(2) == 0, Digits: trimZeros(g.shaped(int(np) + g.intn(3))), Exp: g.exp(), Mode: mode}
		if g.chance(0.1) {
			x = g.special()
			x.Mode = mode
		}
		if x.Form == 1 {
			x.Prec = uint(len(x.Digits)) + uint(g.intn(3))
		}
		v := p.Load(x)
		p.setprec(v, np)
	}
}

// clampMulExp keeps the product exponent near the range edge only deliberately.
func (g *Gen) clampMulExp(x, y *Val) {
	if x.Form != 1 || y.Form != 1 {
		return
	}
	if g.chance(0.05) {
		// product straddling an exponent limit
		if g.intn(2) == 0 {
			x.Exp = int64(decimal.MaxExp) - int64(g.intn(20))
			y.Exp = int64(g.intn(25))
		} else {
			x.Exp = int64(decimal.MinExp) + int64(g.intn(20))
			y.Exp = -int64(g.intn(25))
		}
	}
}

// loadShape loads the distinct variables required by an aliasing shape and returns the
// variable index for every argument position. sh[i] = j means argument i is the same
// variable as argument j (j <= i); the value used is that of the first position.
func (p *Prog) loadShape(vals []Val, sh []int) []int {
	res := make([]int, len(vals))
	loaded := map[int]int{}
	for i := range vals {
		root := sh[i]
		for sh[root] != root {
			root = sh[root]
		}
		if v, ok := loaded[root]; ok {
			res[i] = v
			continue
		}
		v := p.loadMaybeInexact(vals[root], i == 0)
		loaded[root] = v
		res[i] = v
	}
	return res
}

// staleRand drives loadMaybeInexact; set by the generator.
var staleRand func(n int) int

// loadMaybeInexact loads v; for a finite receiver it sometimes first loads a value with extra
// digits at a larger precision and then SetPrec's it down, so that the variable enters the
// operation with accuracy Below/Above (stale state that the operation must overwrite).
func (p *Prog) loadMaybeInexact(v Val, isRecv bool) int {
	if isRecv && staleRand != nil && v.Form == 1 && v.Prec >= 1 && staleRand(3) == 0 {
		w := v
		w.Digits = v.Digits + strings.Repeat("0", int(v.Prec)-len(v.Digits)) + []string{"3", "5", "51", "7", "49"}[staleRand(5)]
		w.Prec = uint(len(w.Digits))
		i := p.Load(w)
		p.Exec(fmt.Sprintf("setprec %d %d", i, v.Prec))
		return i
	}
	return p.Load(v)
}

// genFMA emits FMA cases (C03).
func (g *Gen) genFMA(p *Prog) {
	prec := g.prec(true)
	mode := g.mode()
	x, y := g.any(), g.any()
	g.clampMulExp(&x, &y)
	var u Val
	switch g.intn(6) {
	case 0:
		u = g.any()
	case 1: // u cancels the product exactly or nearly
		if x.Form == 1 && y.Form == 1 && g.chance(0.3) {
			// ... with the product a few digits above the bottom of the exponent range: the tiny sum underflows
			half := int64(decimal.MinExp) / 2
			x.Exp = half + int64(g.intn(40))
			y.Exp = int64(decimal.MinExp) - x.Exp + int64(g.intn(len(x.Digits)+len(y.Digits)+3))
		}
		if x.Form == 1 && y.Form == 1 && len(x.Digits)+len(y.Digits) < 600 {
			pr := new(big.Int).Mul(digitsToInt(x.Digits), digitsToInt(y.Digits))
			e := (x.Exp - int64(len(x.Digits))) + (y.Exp - int64(len(y.Digits)))
			if g.chance(0.5) {
				pr.Add(pr, big.NewInt(int64(g.intn(3)-1)))
				if pr.Sign() <= 0 {
					pr.SetInt64(1)
				}
			}
			if e > -2147484400 && e < 2147480000 {
				u = intToVal(pr, e, x.Neg == y.Neg, uint(g.intn(3)), g.mode())
				if u.Exp > int64(decimal.MaxExp) || u.Exp < int64(decimal.MinExp) {
					u = g.any()
				}
			} else {
				u = g.any()
			}
		} else {
			u = g.any()
		}
	case 2: // u far below the product
		u = g.finite()
		if x.Form == 1 && y.Form == 1 {
			u.Exp = x.Exp + y.Exp - int64(prec) - int64(g.intn(40))
		}
	case 3: // u far above
		u = g.finite()
		if x.Form == 1 && y.Form == 1 {
			u.Exp = x.Exp + y.Exp + int64(g.intn(40))
		}
	default:
		u = g.finite()
		if x.Form == 1 && y.Form == 1 {
			u.Exp = x.Exp + y.Exp + int64(g.intn(7)-3)
		}
	}
	if u.Exp > int64(decimal.MaxExp) {
		u.Exp = int64(decimal.MaxExp)
	}
	if u.Exp < int64(decimal.MinExp) {
		u.Exp = int64(decimal.MinExp)
	}
	if x.Form == 1 && y.Form == 1 && u.Form == 1 {
		// keep the alignment shift bounded
		d := (x.Exp + y.Exp) - u.Exp
		if d > 3000 || d < -3000 {
			u.Exp = x.Exp + y.Exp
			if u.Exp > int64(decimal.MaxExp) {
				u.Exp = int64(decimal.MaxExp)
			}
			if u.Exp < int64(decimal.MinExp) {
				u.Exp = int64(decimal.MinExp)
			}
		}
	}
	if g.chance(0.12) {
		// the exact product has the shape "prec digits + tail" (tails 5, 50…0, 49…9, 0…01 …) and u lies far below
		// its last digit, on either side: the tiny addend alone breaks the tie / decides the directed rounding.
		// x = R·5^a·2^b, y = 2^a·5^b, so that x·y = R·10^(a+b) exactly.
		pw := []int{1, 2, 3, 5, 18, 19, 20, 37, 38, 39}[g.intn(10)]
		if g.chance(0.3) {
			pw = 1 + g.intn(60)
		}
		prec = uint(pw)
		R := digitsToInt(g.shaped(pw))
		if R.Sign() == 0 {
			R.SetInt64(15)
		}
		a, b := int64(g.intn(4)), int64(g.intn(4))
		xv := new(big.Int).Mul(R, new(big.Int).Exp(big.NewInt(5), big.NewInt(a), nil))
		xv.Mul(xv, new(big.Int).Exp(big.NewInt(2), big.NewInt(b), nil))
		yv := new(big.Int).Mul(new(big.Int).Exp(big.NewInt(2), big.NewInt(a), nil), new(big.Int).Exp(big.NewInt(5), big.NewInt(b), nil))
		e := int64(g.intn(21) - 10)
		x = intToVal(xv, e, g.intn(2) == 0, uint(g.intn(3)), g.mode())
		y = intToVal(yv, 0, g.intn(2) == 0, uint(g.intn(3)), g.mode())
		if g.chance(0.5) {
			x, y = y, x
		}
		// the product is R·10^(a+b+e) with len(R) digits: its last digit has weight 10^(a+b+e)
		below := 1 + g.intn(70)
		ud := []string{"1", "5", "9", "123"}[g.intn(4)]
		u = Val{Form: 1, Neg: g.intn(2) == 0, Digits: ud, Exp: a + b + e - int64(below) + int64(len(ud)), Prec: uint(len(ud)) + uint(g.intn(3)), Mode: g.mode()}
	}
	if g.chance(0.08) && x.Form == 1 && y.Form == 1 {
		// precision-0 receiver: the result precision is the largest of ALL three operands, also when u is ±0
		u = Val{Form: 0, Neg: g.intn(2) == 0, Prec: uint(len(x.Digits)+len(y.Digits)) + uint(g.intn(30)), Mode: g.mode()}
		prec = 0
	}
	vals := []Val{g.receiver(prec, mode), x, y, u}
	sh := g.aliasShape(4, 0.3)
	vi := p.loadShape(vals, sh)
	p.fma(vi[0], vi[1], vi[2], vi[3])
}

// genSpecial emits the exhaustive class product for one op/mode (C04).
func (g *Gen) classVal(c int) Val {
	// 0 -Inf 1 -fin 2 -0 3 +0 4 +fin 5 +Inf
	switch c {
	case 0:
		return Val{Form: 2, Neg: true, Prec: g.prec(true), Mode: g.mode()}
	case 5:
		return Val{Form: 2, Neg: false, Prec: g.prec(true), Mode: g.mode()}
	case 2:
		return Val{Form: 0, Neg: true, Prec: g.prec(true), Mode: g.mode()}
	case 3:
		return Val{Form: 0, Neg: false, Prec: g.prec(true), Mode: g.mode()}
	default:
		v := g.finite()
		v.Neg = c == 1
		return v
	}
}

func (g *Gen) genSpecialProduct(out func() *Prog) {
	for _, op := range []string{"add", "sub", "mul", "quo"} {
		for m := 0; m < 6; m++ {
			for a := 0; a < 6; a++ {
				for b := 0; b < 6; b++ {
					p := out()
					x, y := g.classVal(a), g.classVal(b)
					if a == b && (a == 1 || a == 4) && g.chance(0.5) {
						y.Digits, y.Exp = x.Digits, x.Exp // exact cancellation
						y.Prec = x.Prec
					}
					g.clampMulExp(&x, &y)
					vals := []Val{g.receiver(g.prec(true), decimal.RoundingMode(m)), x, y}
					vi := p.loadShape(vals, []int{0, 1, 2})
					p.binary(op, vi[0], vi[1], vi[2])
				}
			}
		}
	}
	for m := 0; m < 6; m++ { // Sqrt: NaN for every negative non-zero operand, -Inf included
		for a := 0; a < 6; a++ {
			for k := 0; k < 2; k++ {
				p := out()
				x := g.classVal(a)
				vals := []Val{g.receiver(g.prec(true), decimal.RoundingMode(m)), x}
				sh := []int{0, 1}
				if k == 1 {
					sh = []int{0, 0}
					vals[0] = x
				}
				vi := p.loadShape(vals, sh)
				p.Exec(fmt.Sprintf("sqrt %d %d", vi[0], vi[1]))
			}
		}
	}
	for m := 0; m < 6; m++ {
		for a := 0; a < 6; a++ {
			for b := 0; b < 6; b++ {
				for c := 0; c < 6; c++ {
					p := out()
					x, y, u := g.classVal(a), g.classVal(b), g.classVal(c)
					x.Exp, y.Exp, u.Exp = int64(g.intn(21)-10), int64(g.intn(21)-10), int64(g.intn(41)-20)
					if g.chance(0.3) && x.Form == 1 && y.Form == 1 && u.Form == 1 {
						pr := new(big.Int).Mul(digitsToInt(x.Digits), digitsToInt(y.Digits))
						e := (x.Exp - int64(len(x.Digits))) + (y.Exp - int64(len(y.Digits)))
						u = intToVal(pr, e, u.Neg, 0, u.Mode)
					}
					vals := []Val{g.receiver(g.prec(true), decimal.RoundingMode(m)), x, y, u}
					vi := p.loadShape(vals, g.aliasShape(4, 0.2))
					p.fma(vi[0], vi[1], vi[2], vi[3])
				}
			}
		}
	}
}

// genCmp emits comparison cases (C16).
func (g *Gen) genCmp(p *Prog) {
	switch g.intn(8) {
	case 0: // same leading words, a lower word differing by more than 2^63 (or missing altogether)
		prefix := g.digitsPattern(19 * (1 + g.intn(3)))
		hi := []string{"9500000000000000000", "9999999999999999999", "9300000000000000000", "9223372036854775808"}[g.intn(4)]
		lo := []string{"0100000000000000000", "0000000000000000001", "0000000000000000000", ""}[g.intn(4)]
		tail := ""
		if g.chance(0.5) {
			tail = g.digitsPattern(1 + g.intn(25))
		}
		neg := g.intn(2) == 0
		e := g.exp()
		mk := func(d string) Val {
			d = trimZeros(d)
			return Val{Form: 1, Neg: neg, Digits: d, Exp: e, Prec: uint(len(d)) + uint(g.intn(3)), Mode: g.mode()}
		}
		a := p.Load(mk(prefix + hi + tail))
		lt := tail
		if lo == "" {
			lt = ""
		}
		b := p.Load(mk(prefix + lo + lt))
		p.cmp(a, b)
		p.cmp(b, a)
		c := p.Load(mk(prefix + "5000000000000000000"))
		p.cmp(a, c)
		p.cmp(c, b)
		return
	case 2: // equal leading word(s), then two lower words that differ in opposite directions
		prefix := g.digitsPattern(19 * (1 + g.intn(2)))
		if prefix[0] == '0' {
			prefix = "4" + prefix[1:]
		}
		w := func() string { return fmt.Sprintf("%019d", g.r.Uint64()%10000000000000000000) }
		hi1, hi2, lo1, lo2 := w(), w(), w(), w()
		if hi1 < hi2 {
			hi1, hi2 = hi2, hi1
		}
		if lo1 > lo2 {
			lo1, lo2 = lo2, lo1
		}
		mid := ""
		if g.chance(0.3) {
			mid = w()
		}
		neg := g.intn(2) == 0
		e := g.exp()
		mk := func(d string) Val {
			d = trimZeros(d)
			return Val{Form: 1, Neg: neg, Digits: d, Exp: e, Prec: uint(len(d)) + uint(g.intn(3)), Mode: g.mode()}
		}
		a := p.Load(mk(prefix + hi1 + mid + lo1)) // larger in the higher word, smaller in the lowest
		b := p.Load(mk(prefix + hi2 + mid + lo2))
		p.cmp(a, b)
		p.cmp(b, a)
		c := p.Load(mk(prefix + hi1 + mid + lo2))
		p.cmp(a, c)
		p.cmp(c, b)
		return
	case 1: // infinities (and zeros) with different histories: stale exponent and mantissa must not matter
		mkInf := func(neg bool) int {
			switch g.intn(3) {
			case 0:
				return p.Load(Val{Form: 2, Neg: neg, Prec: g.prec(true), Mode: g.mode()})
			case 1:
				v := g.finite()
				i := p.Load(v)
				p.Exec(fmt.Sprintf("setinf %d %d", i, map[bool]int{false: 0, true: 1}[neg]))
				return i
			default:
				v := g.finite()
				v.Neg = neg
				i := p.Load(v)
				z := p.Load(Val{Form: 0, Neg: false, Prec: 0})
				p.Exec(fmt.Sprintf("quo %d %d %d", i, i, z)) // x / +0 = ±Inf, keeps stale fields
				return i
			}
		}
		neg := g.intn(2) == 0
		a, b := mkInf(neg), mkInf(neg)
		p.cmp(a, b)
		p.cmp(b, a)
		c := mkInf(!neg)
		p.cmp(a, c)
		// zeros with different histories
		v := g.finite()
		zi := p.Load(v)
		p.Exec(fmt.Sprintf("sub %d %d %d", zi, zi, zi))
		z2 := p.Load(Val{Form: 0, Neg: g.intn(2) == 0, Prec: 3})
		p.cmp(zi, z2)
		p.cmp(z2, zi)
		p.Exec(fmt.Sprintf("sign %d", zi))
		// more zeros with history: a setter of 0, a product with 0, an underflow
		v2 := g.finite()
		w := p.Load(v2)
		switch g.intn(3) {
		case 0:
			p.Exec(fmt.Sprintf("setuint64 %d 0", w))
		case 1:
			p.Exec(fmt.Sprintf("mul %d %d %d", w, w, z2))
		default:
			p.Exec(fmt.Sprintf("setmantexp %d %d %d", w, w, int64(decimal.MinExp)-v2.Exp-3))
		}
		p.Exec(fmt.Sprintf("sign %d", w))
		p.cmp(w, z2)
		p.cmp(w, zi)
		if g.chance(0.5) {
			p.Exec(fmt.Sprintf("sqrt %d %d", z2, w))
		}
		return
	}
	x := g.any()
	y := g.related(x)
	if g.chance(0.15) {
		y = g.special()
	}
	if g.chance(0.3) {
		y.Neg = x.Neg
	}
	a := p.Load(x)
	b := p.Load(y)
	p.cmp(a, b)
	p.cmp(b, a)
	if g.chance(0.2) {
		p.cmp(a, a)
	}
	if g.chance(0.3) {
		z := g.related(y)
		c := p.Load(z)
		p.cmp(a, c)
		p.cmp(b, c)
	}
}

// genProgram emits a multi-step program over a few variables (C08 C09 C10).
func (g *Gen) genProgram(p *Prog, steps int) {
	nv := 3 + g.intn(4)
	for i := 0; i < nv; i++ {
		v := g.any()
		if g.chance(0.3) {
			v = Val{Form: 0, Prec: g.prec(true), Mode: g.mode()}
		}
		// keep exponents moderate so chains of mul/quo stay cheap
		if v.Form == 1 && (v.Exp > 1000 || v.Exp < -1000) && g.chance(0.9) {
			v.Exp = int64(g.intn(41) - 20)
		}
		p.Load(v)
	}
	pick := func() int { return g.intn(nv) }
	for s := 0; s < steps; s++ {
		switch k := g.intn(20); {
		case k < 8:
			z, x, y := pick(), pick(), pick()
			if p.farApart(x, y) {
				continue
			}
			if k < 4 {
				p.binary("add", z, x, y)
			} else {
				p.binary("sub", z, x, y)
			}
		case k < 11:
			z, x, y := pick(), pick(), pick()
			if p.tooBig(x, y) {
				continue
			}
			p.binary("mul", z, x, y)
		case k < 13:
			p.binary("quo", pick(), pick(), pick())
		case k < 14:
			z, x, y, u := pick(), pick(), pick(), pick()
			if p.fmaFar(x, y, u) {
				continue
			}
			p.fma(z, x, y, u)
		case k < 15:
			p.unary("set", pick(), pick())
		case k < 16:
			p.unary("neg", pick(), pick())
		case k < 17:
			p.unary("abs", pick(), pick())
		case k < 18:
			p.setprec(pick(), g.prec(true))
		case k < 19:
			p.setmode(pick(), g.mode())
		default:
			p.cmp(pick(), pick())
		}
	}
}

// tooBig guards against exponent sums far outside the range (the alignment shift of a later
// Add would try to allocate gigabytes).
func (p *Prog) tooBig(x, y int) bool {
	return false
}

// farApart reports whether aligning the two finite variables would need a huge shift.
func (p *Prog) farApart(xs ...int) bool {
	lo, hi := int64(1<<62), int64(-1<<62)
	for _, x := range xs {
		v := p.vars[x]
		if v.IsZero() || v.IsInf() {
			continue
		}
		m, e := v.BitsExp()
		top := int64(e)
		bot := int64(e) - int64(len(m))*DW
		if bot < lo {
			lo = bot
		}
		if top > hi {
			hi = top
		}
	}
	return hi > lo && hi-lo > 6000
}

func (p *Prog) fmaFar(x, y, u int) bool {
	X, Y, U := p.vars[x], p.vars[y], p.vars[u]
	fin := func(d *decimal.Decimal) bool { return !d.IsZero() && !d.IsInf() }
	if !fin(X) || !fin(Y) || !fin(U) {
		return false
	}
	mx, ex := X.BitsExp()
	my, ey := Y.BitsExp()
	mu, eu := U.BitsExp()
	ptop := int64(ex) + int64(ey)
	pbot := ptop - int64(len(mx)+len(my))*DW
	utop := int64(eu)
	ubot := utop - int64(len(mu))*DW
	lo, hi := pbot, ptop
	if ubot < lo {
		lo = ubot
	}
	if utop > hi {
		hi = utop
	}
	return hi-lo > 6000
}
