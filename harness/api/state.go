package main

// Loading variables through the public API and reading their observable state.

import (
	"bufio"
	"fmt"
	"strconv"
	"strings"

	"github.com/db47h/decimal"
	dctx "github.com/db47h/decimal/context"
)

// load builds a Decimal variable from a Val using only exported methods.
func load(v Val) *decimal.Decimal {
	d := new(decimal.Decimal)
	d.SetMode(v.Mode)
	d.SetPrec(v.Prec)
	switch v.Form {
	case 0:
		if v.Neg {
			d.Neg(d)
		}
	case 1:
		w := digitsToWords(v.Digits)
		d.SetBitsExp(w, v.Exp)
		if v.Neg {
			d.Neg(d)
		}
	case 2:
		d.SetInf(v.Neg)
	}
	return d
}

func wordsString(w []Word) string {
	if len(w) == 0 {
		return "-"
	}
	var sb strings.Builder
	for i, x := range w {
		if i > 0 {
			sb.WriteByte(',')
		}
		sb.WriteString(strconv.FormatUint(uint64(x), 10))
	}
	return sb.String()
}

// readState renders the observable state: form:neg:prec:mode:acc:exp:words
func readState(d *decimal.Decimal) string {
	form := 1
	if d.IsZero() {
		form = 0
	} else if d.IsInf() {
		form = 2
	}
	neg := 0
	if d.Signbit() {
		neg = 1
	}
	mant, exp := d.BitsExp()
	ws := "-"
	e := int32(0)
	if form == 1 {
		ws = wordsString(mant)
		e = exp
	}
	return fmt.Sprintf("%d:%d:%d:%d:%d:%d:%s", form, neg, d.Prec(), int(d.Mode()), int(d.Acc()), e, ws)
}

// Prog is one program: a set of variables and the transcript lines.
type Prog struct {
	ctx  *dctx.Context
	vars []*decimal.Decimal
	out  *bufio.Writer
	n    int // steps executed
}

func newProg(out *bufio.Writer) *Prog {
	out.WriteString("P\n")
	return &Prog{out: out}
}

func (p *Prog) observe(outcome, extra string) {
	p.out.WriteString("G ")
	p.out.WriteString(outcome)
	p.out.WriteByte('|')
	p.out.WriteString(extra)
	for _, v := range p.vars {
		p.out.WriteByte('|')
		p.out.WriteString(readState(v))
	}
	p.out.WriteByte('\n')
	p.n++
}

// Load adds a variable holding v and returns its index.
func (p *Prog) Load(v Val) int {
	d := load(v)
	p.vars = append(p.vars, d)
	i := len(p.vars) - 1
	fmt.Fprintf(p.out, "L %d %s\n", i, readState(d))
	p.observe("ok", "")
	return i
}

// snapshot of every variable's backing array, to detect hidden writes to operands.
type snap struct {
	words [][]Word
}

func (p *Prog) snapshot() snap {
	var s snap
	for _, v := range p.vars {
		m, _ := v.BitsExp()
		full := m[:cap(m)]
		s.words = append(s.words, append([]Word(nil), full...))
	}
	return s
}

// hiddenWrites reports variables (other than recv) whose backing array changed.
func (p *Prog) hiddenWrites(s snap, recv map[int]bool) string {
	for i, v := range p.vars {
		if recv[i] {
			continue
		}
		m, _ := v.BitsExp()
		full := m[:cap(m)]
		if len(full) != len(s.words[i]) {
			return fmt.Sprintf("buffer of var %d changed size", i)
		}
		for j := range full {
			if full[j] != s.words[i][j] {
				return fmt.Sprintf("buffer of var %d written at word %d", i, j)
			}
		}
	}
	return ""
}

// run executes f under recover and classifies the outcome.
func run(f func() string) (outcome, extra string) {
	defer func() {
		if r := recover(); r != nil {
			if _, ok := r.(decimal.ErrNaN); ok {
				outcome = "ErrNaN"
			} else {
				outcome = "panic:" + sanitize(fmt.Sprint(r))
			}
			extra = ""
		}
	}()
	extra = f()
	return "ok", extra
}

func sanitize(s string) string {
	s = strings.Map(func(r rune) rune {
		if r == '|' || r == '\n' || r == '\r' {
			return '/'
		}
		return r
	}, s)
	if len(s) > 80 {
		s = s[:80]
	}
	return s
}

// Op executes one operation; recv lists the receiver variables (may be written).
func (p *Prog) Op(line string, recv []int, f func() string) (outcome string) {
	s := p.snapshot()
	rm := map[int]bool{}
	for _, r := range recv {
		rm[r] = true
	}
	fmt.Fprintf(p.out, "O %s\n", line)
	outcome, extra := run(f)
	if hw := p.hiddenWrites(s, rm); hw != "" {
		// reported through the transcript: the Lean side has no op that yields this outcome
		outcome = "panic:hidden-write " + hw
	}
	p.observe(outcome, extra)
	return outcome
}
