// asmcheck generates requests for the Lean assembly driver (lean/Driver/AsmMain.lean) together
// with the expected answers computed by a straightforward math/big reference of each kernel's
// mathematical meaning, and (with -driver) runs the driver and compares.
//
//	asmcheck -n 300 -seed 1                      print "request<TAB>expected" lines
//	asmcheck -n 300 -seed 1 -driver path/to/asmdriver   run and compare, exit 1 on a mismatch
//
// The kernels of db47h/decimal are unexported, so this program does not call them; `realKernel`
// is the hook through which a build-tagged file (added by the main harness, which links the real
// assembly via an export shim) can supply the CPU's answer for the same request.
package main

import (
	"bufio"
	"flag"
	"fmt"
	"io"
	"math/big"
	"math/rand"
	"os"
	"os/exec"
	"strings"
)

// realKernel, when non-nil, returns the answer of the real (CPU) kernel for a request line.
var realKernel func(req string) (string, bool)

var (
	bigB  = new(big.Int).SetUint64(10000000000000000000)
	two64 = new(big.Int).Lsh(big.NewInt(1), 64)
)

const dB = 10000000000000000000

var edges = []uint64{0, 1, 2, 9, 10, dB - 1, dB - 2, dB / 2, dB/2 - 1, dB/2 + 1, 1<<63 - 1, 1 << 63, 1<<63 + 1,
	1000000000, 999999999, 5000000000000000000, 4999999999999999999}

func word(r *rand.Rand) uint64 {
	if r.Intn(3) == 0 {
		return r.Uint64() % dB
	}
	return edges[r.Intn(len(edges))]
}

func vec(r *rand.Rand, n int, kind int) []uint64 {
	v := make([]uint64, n)
	for i := range v {
		switch kind {
		case 1:
			v[i] = dB - 1
		case 2:
			v[i] = 0
		default:
			v[i] = word(r)
		}
	}
	return v
}

func natOf(v []uint64) *big.Int {
	z := new(big.Int)
	for i := len(v) - 1; i >= 0; i-- {
		z.Mul(z, bigB)
		z.Add(z, new(big.Int).SetUint64(v[i]))
	}
	return z
}

func toWords(n int, v *big.Int) []uint64 {
	v = new(big.Int).Set(v)
	out := make([]uint64, n)
	m := new(big.Int)
	for i := 0; i < n; i++ {
		v.DivMod(v, bigB, m)
		out[i] = m.Uint64()
	}
	return out
}

func pow(b *big.Int, n int) *big.Int { return new(big.Int).Exp(b, big.NewInt(int64(n)), nil) }

func showVec(v []uint64) string {
	if len(v) == 0 {
		return "-"
	}
	s := make([]string, len(v))
	for i, w := range v {
		s[i] = fmt.Sprint(w)
	}
	return strings.Join(s, ",")
}

func okVec(c *big.Int, z []uint64) string { return fmt.Sprintf("ok %s | %s", c, showVec(z)) }

type testCase struct{ req, want string }

// splitCarry returns (t mod B^n as n words, t div B^n)
func splitCarry(n int, t *big.Int) ([]uint64, *big.Int) {
	bn := pow(bigB, n)
	q, m := new(big.Int).DivMod(t, bn, new(big.Int))
	return toWords(n, m), q
}

func gen(r *rand.Rand, count int) []testCase {
	var cs []testCase
	add := func(req, want string) { cs = append(cs, testCase{req, want}) }
	u := func(x uint64) *big.Int { return new(big.Int).SetUint64(x) }
	for i := 0; i < count; i++ {
		// word routines
		x, y, w := word(r)%dB, word(r)%dB, word(r)%dB
		p := new(big.Int).Mul(u(x), u(y))
		q, m := new(big.Int).DivMod(p, bigB, new(big.Int))
		add(fmt.Sprintf("asm mul10WW %d %d", x, y), fmt.Sprintf("ok %s %s", q, m))
		n0 := r.Uint64()
		t := new(big.Int).Add(new(big.Int).Mul(u(x), two64), u(n0))
		q, m = new(big.Int).DivMod(t, bigB, new(big.Int))
		add(fmt.Sprintf("asm div10W %d %d", x, n0), fmt.Sprintf("ok %s %s", q, m))
		d := w
		if d == 0 {
			d = 7
		}
		x1 := x % d
		t = new(big.Int).Add(new(big.Int).Mul(u(x1), bigB), u(y))
		q, m = new(big.Int).DivMod(t, u(d), new(big.Int))
		add(fmt.Sprintf("asm div10WW %d %d %d", x1, y, d), fmt.Sprintf("ok %s %s", q, m))

		// vector routines; lengths 0..9 cross the 4x unrolling
		n := i % 10
		kind := (i / 10) % 4
		xv, yv := vec(r, n, kind), vec(r, n, 0)
		X, Y := natOf(xv), natOf(yv)
		bn := pow(bigB, n)
		for _, bang := range []string{"", "!"} {
			z, c := splitCarry(n, new(big.Int).Add(X, Y))
			add(fmt.Sprintf("asm add10VV%s | %s | %s", bang, showVec(xv), showVec(yv)), okVec(c, z))
			if X.Cmp(Y) >= 0 {
				add(fmt.Sprintf("asm sub10VV%s | %s | %s", bang, showVec(xv), showVec(yv)), okVec(big.NewInt(0), toWords(n, new(big.Int).Sub(X, Y))))
			} else {
				add(fmt.Sprintf("asm sub10VV%s | %s | %s", bang, showVec(xv), showVec(yv)), okVec(big.NewInt(1), toWords(n, new(big.Int).Sub(new(big.Int).Add(X, bn), Y))))
			}
			yw := w
			if i%6 == 5 {
				yw = 0
			}
			if n == 0 {
				add(fmt.Sprintf("asm add10VW%s %d | -", bang, yw), okVec(u(yw), nil))
				add(fmt.Sprintf("asm sub10VW%s %d | -", bang, yw), okVec(u(yw), nil))
			} else {
				z, c = splitCarry(n, new(big.Int).Add(X, u(yw)))
				add(fmt.Sprintf("asm add10VW%s %d | %s", bang, yw, showVec(xv)), okVec(c, z))
				if X.Cmp(u(yw)) >= 0 {
					add(fmt.Sprintf("asm sub10VW%s %d | %s", bang, yw, showVec(xv)), okVec(big.NewInt(0), toWords(n, new(big.Int).Sub(X, u(yw)))))
				} else {
					add(fmt.Sprintf("asm sub10VW%s %d | %s", bang, yw, showVec(xv)), okVec(big.NewInt(1), toWords(n, new(big.Int).Sub(new(big.Int).Add(X, bn), u(yw)))))
				}
			}
			z, c = splitCarry(n, new(big.Int).Add(new(big.Int).Mul(X, u(y)), u(w)))
			add(fmt.Sprintf("asm mulAdd10VWW%s %d %d | %s", bang, y, w, showVec(xv)), okVec(c, z))
			xn := y % d
			t := new(big.Int).Add(new(big.Int).Mul(u(xn), bn), X)
			q, m := new(big.Int).DivMod(t, u(d), new(big.Int))
			add(fmt.Sprintf("asm div10VWW%s %d %d | %s", bang, d, xn, showVec(xv)), okVec(m, toWords(n, q)))
			s := uint(i % 19)
			p10 := pow(big.NewInt(10), int(s))
			if n == 0 {
				add(fmt.Sprintf("asm shl10VU%s %d | -", bang, s), okVec(big.NewInt(0), nil))
				add(fmt.Sprintf("asm shr10VU%s %d | -", bang, s), okVec(big.NewInt(0), nil))
			} else {
				z, c = splitCarry(n, new(big.Int).Mul(X, p10))
				add(fmt.Sprintf("asm shl10VU%s %d | %s", bang, s, showVec(xv)), okVec(c, z))
				if s == 0 {
					add(fmt.Sprintf("asm shr10VU%s 0 | %s", bang, showVec(xv)), okVec(big.NewInt(0), xv))
				} else {
					q, m := new(big.Int).DivMod(X, p10, new(big.Int))
					m.Mul(m, pow(big.NewInt(10), 19-int(s)))
					add(fmt.Sprintf("asm shr10VU%s %d | %s", bang, s, showVec(xv)), okVec(m, toWords(n, q)))
				}
			}
		}
		z, c := splitCarry(n, new(big.Int).Add(Y, new(big.Int).Mul(X, u(w))))
		add(fmt.Sprintf("asm addMul10VVW %d | %s | %s", w, showVec(yv), showVec(xv)), okVec(c, z))
	}
	return cs
}

func main() {
	n := flag.Int("n", 200, "number of rounds (each round is ~25 requests)")
	seed := flag.Int64("seed", 1, "random seed")
	driver := flag.String("driver", "", "path of the Lean asmdriver executable; empty = only print the cases")
	flag.Parse()
	cases := gen(rand.New(rand.NewSource(*seed)), *n)
	if *driver == "" {
		w := bufio.NewWriter(os.Stdout)
		for _, c := range cases {
			fmt.Fprintf(w, "%s\t%s\n", c.req, c.want)
		}
		w.Flush()
		return
	}
	cmd := exec.Command(*driver)
	in, _ := cmd.StdinPipe()
	out, _ := cmd.StdoutPipe()
	cmd.Stderr = os.Stderr
	if err := cmd.Start(); err != nil {
		fmt.Fprintln(os.Stderr, "asmcheck:", err)
		os.Exit(2)
	}
	go func() {
		w := bufio.NewWriter(in)
		for _, c := range cases {
			io.WriteString(w, c.req+"\n")
		}
		w.Flush()
		in.Close()
	}()
	sc := bufio.NewScanner(out)
	sc.Buffer(make([]byte, 1<<20), 1<<26)
	bad, i := 0, 0
	for ; sc.Scan() && i < len(cases); i++ {
		got := strings.TrimSpace(sc.Text())
		if got != cases[i].want {
			bad++
			if bad <= 20 {
				fmt.Printf("DIFF lean-asm vs reference: %s\n  lean: %s\n  want: %s\n", cases[i].req, got, cases[i].want)
			}
		}
		if realKernel != nil {
			if cpu, ok := realKernel(cases[i].req); ok && cpu != got {
				bad++
				if bad <= 20 {
					fmt.Printf("DIFF lean-asm vs CPU: %s\n  lean: %s\n  cpu:  %s\n", cases[i].req, got, cpu)
				}
			}
		}
	}
	cmd.Wait()
	if i != len(cases) {
		fmt.Printf("asmcheck: driver answered %d of %d requests\n", i, len(cases))
		bad++
	}
	fmt.Printf("asmcheck: %d requests, %d mismatches\n", len(cases), bad)
	if bad > 0 {
		os.Exit(1)
	}
}
